SPECIFICATION Spec
CONSTANTS
  W = 65536
  CH = 16384
CHECK_DEADLOCK FALSE
