SPECIFICATION SteppedSpec
CONSTANTS
  W0 = 0
  CH = 2
  Msg = 3
  Credits <- Cr_c
  MayCancel = FALSE
CHECK_DEADLOCK FALSE
