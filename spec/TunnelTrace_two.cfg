SPECIFICATION TSpec
CONSTANTS
  W = 8
  CH = 2
  RPCs <- Two
  CScript <- G_two
  SScript <- GS_two
  Faults <- AllFaults4
  MaxFaults = 1
  Stepped = TRUE
  Dir = "fwd"
CHECK_DEADLOCK FALSE
INVARIANT NotAccepted
CONSTRAINT Track
POSTCONDITION Post
