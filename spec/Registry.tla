------------------------------ MODULE Registry ------------------------------
(***************************************************************************)
(* The reverse-tunnel registry of TunnelServiceHandler (handler.go) as a    *)
(* transition system: the global list and the per-key lists are updated in  *)
(* SEPARATE critical sections by two kinds of threads per tunnel:           *)
(*                                                                         *)
(*  handler thread (openReverseTunnel):  add-global -> add-per-key ->       *)
(*     open callback -> wait for the channel to be done -> close callback   *)
(*     -> remove-per-key -> remove-global                                   *)
(*  closer thread (tunnelChannel.close, run by whoever ends the channel):   *)
(*     unregister = remove-global -> (if it was there) remove-per-key,      *)
(*     THEN the channel is marked finished and Done() fires                 *)
(*                                                                         *)
(* A tunnel may end at any moment, in particular during admission (before   *)
(* or between the two adds).  Each list carries the round-robin cursor and  *)
(* the readiness latch (a channel closed by the first add, replaced when    *)
(* the list becomes empty).                                                 *)
(***************************************************************************)
EXTENDS Integers, Sequences, FiniteSets, TLC

CONSTANTS Tunnels, KeyOf, Keys, MaxPicks

VARIABLES hpc,      \* [Tunnels -> handler thread pc]
          cpc,      \* [Tunnels -> closer thread pc]
          finished, \* [Tunnels -> BOOLEAN] channel marked finished (Done fired)
          glist,    \* global list: sequence of tunnels
          klist,    \* [Keys -> sequence of tunnels]
          gidx, kidx, \* round-robin cursors
          gavail, kavail, \* readiness latches: TRUE = closed (ready)
          cbs,      \* [Tunnels -> sequence of callbacks]
          picks     \* number of picks so far (bound)

vars == <<hpc, cpc, finished, glist, klist, gidx, kidx, gavail, kavail, cbs, picks>>

Remove(s, t) == SelectSeq(s, LAMBDA x : x # t)
In(s, t) == \E i \in 1..Len(s) : s[i] = t
Set(s) == { s[i] : i \in 1..Len(s) }

Init ==
  /\ hpc = [t \in Tunnels |-> "idle"] /\ cpc = [t \in Tunnels |-> "none"] /\ finished = [t \in Tunnels |-> FALSE]
  /\ glist = <<>> /\ klist = [k \in Keys |-> <<>>] /\ gidx = 0 /\ kidx = [k \in Keys |-> 0]
  /\ gavail = FALSE /\ kavail = [k \in Keys |-> FALSE]
  /\ cbs = [t \in Tunnels |-> <<>>] /\ picks = 0

\* a reverse tunnel is opened: the channel exists (settings received), the handler is about to register it
Open(t) ==
  /\ hpc[t] = "idle" /\ hpc' = [hpc EXCEPT ![t] = "created"]
  /\ UNCHANGED <<cpc, finished, glist, klist, gidx, kidx, gavail, kavail, cbs, picks>>

\* s.reverse.add(ch, key)
AddGlobal(t) ==
  /\ hpc[t] = "created" /\ hpc' = [hpc EXCEPT ![t] = "g"]
  /\ glist' = Append(glist, t) /\ gavail' = TRUE
  /\ UNCHANGED <<cpc, finished, klist, gidx, kidx, kavail, cbs, picks>>

\* rc.add(ch, key)
AddKey(t) ==
  /\ hpc[t] = "g" /\ hpc' = [hpc EXCEPT ![t] = "gk"]
  /\ klist' = [klist EXCEPT ![KeyOf[t]] = Append(@, t)] /\ kavail' = [kavail EXCEPT ![KeyOf[t]] = TRUE]
  /\ UNCHANGED <<cpc, finished, glist, gidx, kidx, gavail, cbs, picks>>

CbOpen(t) ==
  /\ hpc[t] = "gk" /\ hpc' = [hpc EXCEPT ![t] = "open"]
  /\ cbs' = [cbs EXCEPT ![t] = Append(@, "open")]
  /\ UNCHANGED <<cpc, finished, glist, klist, gidx, kidx, gavail, kavail, picks>>

\* the tunnel ends (Close on either end, Stop, failure): somebody starts closing the channel
End(t) ==
  /\ hpc[t] \in {"created", "g", "gk", "open"} /\ cpc[t] = "none"
  /\ cpc' = [cpc EXCEPT ![t] = "unreg"]
  /\ UNCHANGED <<hpc, finished, glist, klist, gidx, kidx, gavail, kavail, cbs, picks>>

\* unregister: k, ok := s.reverse.remove(ch); if !ok return
UnregGlobal(t) ==
  /\ cpc[t] = "unreg"
  /\ IF In(glist, t)
     THEN /\ glist' = Remove(glist, t) /\ gavail' = (Len(glist) > 1) /\ cpc' = [cpc EXCEPT ![t] = "unregkey"]
     ELSE /\ UNCHANGED <<glist, gavail>> /\ cpc' = [cpc EXCEPT ![t] = "mark"]
  /\ UNCHANGED <<hpc, finished, klist, gidx, kidx, kavail, cbs, picks>>

\* rc := s.reverseByKey[k]; if rc != nil { rc.remove(ch) }
UnregKey(t) ==
  /\ cpc[t] = "unregkey" /\ cpc' = [cpc EXCEPT ![t] = "mark"]
  /\ klist' = [klist EXCEPT ![KeyOf[t]] = Remove(@, t)]
  /\ kavail' = [kavail EXCEPT ![KeyOf[t]] = IF In(klist[KeyOf[t]], t) THEN Len(klist[KeyOf[t]]) > 1 ELSE @]
  /\ UNCHANGED <<hpc, finished, glist, gidx, kidx, gavail, cbs, picks>>

\* the channel is marked finished, its context is cancelled: Done() fires
Mark(t) ==
  /\ cpc[t] = "mark" /\ cpc' = [cpc EXCEPT ![t] = "done"] /\ finished' = [finished EXCEPT ![t] = TRUE]
  /\ UNCHANGED <<hpc, glist, klist, gidx, kidx, gavail, kavail, cbs, picks>>

\* <-ch.Done() returned; deferred: close callback, rc.remove, s.reverse.remove (ch.Close is a no-op by now).
\* Done() can only fire once the handler waits for it or earlier; the registration steps are not interrupted
\* (found by conformance checking: Done() is the channel CONTEXT's Done(); when the tunnel ends because its
\* stream's context ends - Stop, cancellation, failure - it fires before the closer has unregistered
\* anything, so the handler's clean-up can overtake the closer's)
CbClose(t) ==
  /\ hpc[t] = "open" /\ (finished[t] \/ cpc[t] # "none") /\ hpc' = [hpc EXCEPT ![t] = "c1"]
  /\ cbs' = [cbs EXCEPT ![t] = Append(@, "close")]
  /\ UNCHANGED <<cpc, finished, glist, klist, gidx, kidx, gavail, kavail, picks>>

DeferRemoveKey(t) ==
  /\ hpc[t] = "c1" /\ hpc' = [hpc EXCEPT ![t] = "c2"]
  /\ klist' = [klist EXCEPT ![KeyOf[t]] = Remove(@, t)]
  /\ kavail' = [kavail EXCEPT ![KeyOf[t]] = IF In(klist[KeyOf[t]], t) THEN Len(klist[KeyOf[t]]) > 1 ELSE @]
  /\ UNCHANGED <<cpc, finished, glist, gidx, kidx, gavail, cbs, picks>>

DeferRemoveGlobal(t) ==
  /\ hpc[t] = "c2" /\ hpc' = [hpc EXCEPT ![t] = "exit"]
  /\ glist' = Remove(glist, t) /\ gavail' = IF In(glist, t) THEN Len(glist) > 1 ELSE gavail
  /\ UNCHANGED <<cpc, finished, klist, gidx, kidx, kavail, cbs, picks>>

\* pick through the global pooled channel / a per-key pooled channel (only the cursor changes)
PickGlobal ==
  /\ picks < MaxPicks /\ picks' = picks + 1
  /\ gidx' = IF glist = <<>> THEN gidx ELSE (IF gidx + 1 >= Len(glist) THEN 0 ELSE gidx + 1)
  /\ UNCHANGED <<hpc, cpc, finished, glist, klist, kidx, gavail, kavail, cbs>>
PickKey(k) ==
  /\ picks < MaxPicks /\ picks' = picks + 1
  /\ kidx' = [kidx EXCEPT ![k] = IF klist[k] = <<>> THEN @ ELSE (IF @ + 1 >= Len(klist[k]) THEN 0 ELSE @ + 1)]
  /\ UNCHANGED <<hpc, cpc, finished, glist, klist, gidx, gavail, kavail, cbs>>

Next ==
  \/ \E t \in Tunnels : Open(t) \/ AddGlobal(t) \/ AddKey(t) \/ CbOpen(t) \/ End(t) \/ UnregGlobal(t) \/ UnregKey(t) \/ Mark(t)
                        \/ CbClose(t) \/ DeferRemoveKey(t) \/ DeferRemoveGlobal(t)
  \/ PickGlobal \/ \E k \in Keys : PickKey(k)

Spec == Init /\ [][Next]_vars /\ WF_vars(Next)

-----------------------------------------------------------------------------
\* no thread is in the middle of a multi-step update
Quiescent == \A t \in Tunnels : hpc[t] \in {"idle", "open", "exit"} /\ cpc[t] \in {"none", "done"}
              /\ (finished[t] => hpc[t] = "exit")
OpenSet == { t \in Tunnels : hpc[t] = "open" /\ ~finished[t] /\ cpc[t] = "none" }

C12_RegistryMatches ==
  Quiescent => /\ Set(glist) = OpenSet /\ Len(glist) = Cardinality(OpenSet)
               /\ \A k \in Keys : Set(klist[k]) = { t \in OpenSet : KeyOf[t] = k } /\ Len(klist[k]) = Cardinality(Set(klist[k]))
\* the lists never hold a tunnel twice, nor under a wrong key
C12_NoDuplicates == Len(glist) = Cardinality(Set(glist)) /\ \A k \in Keys : \A i \in 1..Len(klist[k]) : KeyOf[klist[k][i]] = k
\* the readiness latch is closed exactly while the list is non-empty
C12_ReadyIff == gavail = (glist # <<>>) /\ \A k \in Keys : kavail[k] = (klist[k] # <<>>)
\* the cursors stay inside their lists (so a pick never indexes out of range)
C12_CursorInRange == (glist # <<>> => (gidx < Len(glist) \/ gidx + 1 >= Len(glist)))
C12_Callbacks == \A t \in Tunnels : cbs[t] \in {<<>>, <<"open">>, <<"open", "close">>}
\* every tunnel that was admitted is eventually gone from both lists once it ended
C12_EventuallyRemoved == \A t \in Tunnels : [](cpc[t] = "unreg" => <>(~In(glist, t) /\ ~In(klist[KeyOf[t]], t)))
=============================================================================
