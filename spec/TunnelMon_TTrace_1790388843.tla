---- MODULE TunnelMon_TTrace_1790388843 ----
EXTENDS Sequences, TLCExt, TunnelMon, Toolbox, Naturals, TLC

_expression ==
    LET TunnelMon_TEExpression == INSTANCE TunnelMon_TEExpression
    IN TunnelMon_TEExpression!expression
----

_trace ==
    LET TunnelMon_TETrace == INSTANCE TunnelMon_TETrace
    IN TunnelMon_TETrace!trace
----

_inv ==
    ~(
        TLCGet("level") = Len(_TETrace)
        /\
        q = ([nsrv |-> 1, stab |-> 0, chdone |-> FALSE, at |-> FALSE, final |-> FALSE, blocked |-> <<>>, h |-> <<>>, parked |-> <<>>, ctab |-> -1, qc2s |-> 0, qs2c |-> 1, g |-> -1])
        /\
        bad = ({})
        /\
        cfg = ([ev |-> "open", i |-> 3, dir |-> "rev", cliNoFC |-> FALSE, srvNoFC |-> FALSE, rawCli |-> "", rawSrv |-> "", cap |-> 2, auto |-> FALSE, tmd |-> [_ |-> <<>>]])
        /\
        meta = ([done |-> <<1, 2, 3>>])
        /\
        viol = ({<<0, "C11_SettingsIff", 5, "">>})
        /\
        now = (0)
        /\
        l = (15)
        /\
        tun = ([marshalFail |-> FALSE, started |-> FALSE, startFail |-> FALSE, opened |-> TRUE, chdone |-> FALSE, chErr |-> "none", serveRet |-> FALSE, serveCls |-> "none", causes |-> {}, lastNew |-> 0, s2cSent |-> 1, settingsSent |-> 1, settingsDeliv |-> FALSE, winC2S |-> 65536, shutdown |-> FALSE, gstopRet |-> FALSE, stopCalled |-> FALSE, stopRet |-> FALSE, baseG |-> -1, fc |-> TRUE, teardown |-> FALSE, firstCause |-> "", lastBlocked |-> <<>>, doneAtTeardown |-> TRUE, srvLastSeen |-> -1, srvMustDie |-> FALSE, cliMustDie |-> FALSE, cliMustFailStart |-> FALSE, s2cDeliv |-> 0, idleC2S |-> 0, idleS2C |-> 0, takenC2S |-> 0, takenS2C |-> 0, revUsed |-> -1])
        /\
        ws = (<<>>)
        /\
        rp = (<<>>)
        /\
        tidx = (0)
    )
----

_init ==
    /\ meta = _TETrace[1].meta
    /\ l = _TETrace[1].l
    /\ q = _TETrace[1].q
    /\ tun = _TETrace[1].tun
    /\ cfg = _TETrace[1].cfg
    /\ tidx = _TETrace[1].tidx
    /\ viol = _TETrace[1].viol
    /\ now = _TETrace[1].now
    /\ rp = _TETrace[1].rp
    /\ bad = _TETrace[1].bad
    /\ ws = _TETrace[1].ws
----

_next ==
    /\ \E i,j \in DOMAIN _TETrace:
        /\ \/ /\ j = i + 1
              /\ i = TLCGet("level")
        /\ meta  = _TETrace[i].meta
        /\ meta' = _TETrace[j].meta
        /\ l  = _TETrace[i].l
        /\ l' = _TETrace[j].l
        /\ q  = _TETrace[i].q
        /\ q' = _TETrace[j].q
        /\ tun  = _TETrace[i].tun
        /\ tun' = _TETrace[j].tun
        /\ cfg  = _TETrace[i].cfg
        /\ cfg' = _TETrace[j].cfg
        /\ tidx  = _TETrace[i].tidx
        /\ tidx' = _TETrace[j].tidx
        /\ viol  = _TETrace[i].viol
        /\ viol' = _TETrace[j].viol
        /\ now  = _TETrace[i].now
        /\ now' = _TETrace[j].now
        /\ rp  = _TETrace[i].rp
        /\ rp' = _TETrace[j].rp
        /\ bad  = _TETrace[i].bad
        /\ bad' = _TETrace[j].bad
        /\ ws  = _TETrace[i].ws
        /\ ws' = _TETrace[j].ws

\* Uncomment the ASSUME below to write the states of the error trace
\* to the given file in Json format. Note that you can pass any tuple
\* to `JsonSerialize`. For example, a sub-sequence of _TETrace.
    \* ASSUME
    \*     LET J == INSTANCE Json
    \*         IN J!JsonSerialize("TunnelMon_TTrace_1790388843.json", _TETrace)

=============================================================================

 Note that you can extract this module `TunnelMon_TEExpression`
  to a dedicated file to reuse `expression` (the module in the 
  dedicated `TunnelMon_TEExpression.tla` file takes precedence 
  over the module `TunnelMon_TEExpression` below).

---- MODULE TunnelMon_TEExpression ----
EXTENDS Sequences, TLCExt, TunnelMon, Toolbox, Naturals, TLC

expression == 
    [
        \* To hide variables of the `TunnelMon` spec from the error trace,
        \* remove the variables below.  The trace will be written in the order
        \* of the fields of this record.
        meta |-> meta
        ,l |-> l
        ,q |-> q
        ,tun |-> tun
        ,cfg |-> cfg
        ,tidx |-> tidx
        ,viol |-> viol
        ,now |-> now
        ,rp |-> rp
        ,bad |-> bad
        ,ws |-> ws
        
        \* Put additional constant-, state-, and action-level expressions here:
        \* ,_stateNumber |-> _TEPosition
        \* ,_metaUnchanged |-> meta = meta'
        
        \* Format the `meta` variable as Json value.
        \* ,_metaJson |->
        \*     LET J == INSTANCE Json
        \*     IN J!ToJson(meta)
        
        \* Lastly, you may build expressions over arbitrary sets of states by
        \* leveraging the _TETrace operator.  For example, this is how to
        \* count the number of times a spec variable changed up to the current
        \* state in the trace.
        \* ,_metaModCount |->
        \*     LET F[s \in DOMAIN _TETrace] ==
        \*         IF s = 1 THEN 0
        \*         ELSE IF _TETrace[s].meta # _TETrace[s-1].meta
        \*             THEN 1 + F[s-1] ELSE F[s-1]
        \*     IN F[_TEPosition - 1]
    ]

=============================================================================



Parsing and semantic processing can take forever if the trace below is long.
 In this case, it is advised to uncomment the module below to deserialize the
 trace from a generated binary file.

\*
\*---- MODULE TunnelMon_TETrace ----
\*EXTENDS IOUtils, TunnelMon, TLC
\*
\*trace == IODeserialize("TunnelMon_TTrace_1790388843.bin", TRUE)
\*
\*=============================================================================
\*

---- MODULE TunnelMon_TETrace ----
EXTENDS TunnelMon, TLC

trace == 
    <<
    ([q |-> [nsrv |-> 0, stab |-> 0, chdone |-> FALSE, at |-> FALSE, final |-> FALSE, blocked |-> <<>>, h |-> <<>>, parked |-> <<>>, ctab |-> -1, qc2s |-> 0, qs2c |-> 0, g |-> -1],bad |-> {},cfg |-> [dir |-> "fwd", cliNoFC |-> FALSE, srvNoFC |-> FALSE, rawCli |-> "", rawSrv |-> "", cap |-> 0, auto |-> FALSE],meta |-> [done |-> <<>>],viol |-> {},now |-> 0,l |-> 1,tun |-> [marshalFail |-> FALSE, started |-> FALSE, startFail |-> FALSE, opened |-> FALSE, chdone |-> FALSE, chErr |-> "none", serveRet |-> FALSE, serveCls |-> "none", causes |-> {}, lastNew |-> 0, s2cSent |-> 0, settingsSent |-> 0, settingsDeliv |-> FALSE, winC2S |-> 65536, shutdown |-> FALSE, gstopRet |-> FALSE, stopCalled |-> FALSE, stopRet |-> FALSE, baseG |-> -1, fc |-> TRUE, teardown |-> FALSE, firstCause |-> "", lastBlocked |-> <<>>, doneAtTeardown |-> TRUE, srvLastSeen |-> -1, srvMustDie |-> FALSE, cliMustDie |-> FALSE, cliMustFailStart |-> FALSE, s2cDeliv |-> 0, idleC2S |-> -1, idleS2C |-> -1, takenC2S |-> 0, takenS2C |-> 0, revUsed |-> -1],ws |-> <<>>,rp |-> <<>>,tidx |-> -1]),
    ([q |-> [nsrv |-> 0, stab |-> 0, chdone |-> FALSE, at |-> FALSE, final |-> FALSE, blocked |-> <<>>, h |-> <<>>, parked |-> <<>>, ctab |-> -1, qc2s |-> 0, qs2c |-> 0, g |-> -1],bad |-> {},cfg |-> [dir |-> "fwd", cliNoFC |-> FALSE, srvNoFC |-> FALSE, rawCli |-> "", rawSrv |-> "", cap |-> 0, auto |-> FALSE],meta |-> [done |-> <<>>],viol |-> {},now |-> 0,l |-> 2,tun |-> [marshalFail |-> FALSE, started |-> FALSE, startFail |-> FALSE, opened |-> FALSE, chdone |-> FALSE, chErr |-> "none", serveRet |-> FALSE, serveCls |-> "none", causes |-> {}, lastNew |-> 0, s2cSent |-> 0, settingsSent |-> 0, settingsDeliv |-> FALSE, winC2S |-> 65536, shutdown |-> FALSE, gstopRet |-> FALSE, stopCalled |-> FALSE, stopRet |-> FALSE, baseG |-> -1, fc |-> TRUE, teardown |-> FALSE, firstCause |-> "", lastBlocked |-> <<>>, doneAtTeardown |-> TRUE, srvLastSeen |-> -1, srvMustDie |-> FALSE, cliMustDie |-> FALSE, cliMustFailStart |-> FALSE, s2cDeliv |-> 0, idleC2S |-> -1, idleS2C |-> -1, takenC2S |-> 0, takenS2C |-> 0, revUsed |-> -1],ws |-> <<>>,rp |-> <<>>,tidx |-> 0]),
    ([q |-> [nsrv |-> 0, stab |-> 0, chdone |-> FALSE, at |-> FALSE, final |-> FALSE, blocked |-> <<>>, h |-> <<>>, parked |-> <<>>, ctab |-> -1, qc2s |-> 0, qs2c |-> 0, g |-> -1],bad |-> {},cfg |-> [dir |-> "fwd", cliNoFC |-> FALSE, srvNoFC |-> FALSE, rawCli |-> "", rawSrv |-> "", cap |-> 0, auto |-> FALSE],meta |-> [done |-> <<1, 2, 3>>],viol |-> {},now |-> 0,l |-> 3,tun |-> [marshalFail |-> FALSE, started |-> FALSE, startFail |-> FALSE, opened |-> FALSE, chdone |-> FALSE, chErr |-> "none", serveRet |-> FALSE, serveCls |-> "none", causes |-> {}, lastNew |-> 0, s2cSent |-> 0, settingsSent |-> 0, settingsDeliv |-> FALSE, winC2S |-> 65536, shutdown |-> FALSE, gstopRet |-> FALSE, stopCalled |-> FALSE, stopRet |-> FALSE, baseG |-> -1, fc |-> TRUE, teardown |-> FALSE, firstCause |-> "", lastBlocked |-> <<>>, doneAtTeardown |-> TRUE, srvLastSeen |-> -1, srvMustDie |-> FALSE, cliMustDie |-> FALSE, cliMustFailStart |-> FALSE, s2cDeliv |-> 0, idleC2S |-> -1, idleS2C |-> -1, takenC2S |-> 0, takenS2C |-> 0, revUsed |-> -1],ws |-> <<>>,rp |-> <<>>,tidx |-> 0]),
    ([q |-> [nsrv |-> 0, stab |-> 0, chdone |-> FALSE, at |-> FALSE, final |-> FALSE, blocked |-> <<>>, h |-> <<>>, parked |-> <<>>, ctab |-> -1, qc2s |-> 0, qs2c |-> 0, g |-> -1],bad |-> {},cfg |-> [dir |-> "fwd", cliNoFC |-> FALSE, srvNoFC |-> FALSE, rawCli |-> "", rawSrv |-> "", cap |-> 0, auto |-> FALSE],meta |-> [done |-> <<1, 2, 3>>],viol |-> {},now |-> 0,l |-> 4,tun |-> [marshalFail |-> FALSE, started |-> FALSE, startFail |-> FALSE, opened |-> FALSE, chdone |-> FALSE, chErr |-> "none", serveRet |-> FALSE, serveCls |-> "none", causes |-> {}, lastNew |-> 0, s2cSent |-> 0, settingsSent |-> 0, settingsDeliv |-> FALSE, winC2S |-> 65536, shutdown |-> FALSE, gstopRet |-> FALSE, stopCalled |-> FALSE, stopRet |-> FALSE, baseG |-> -1, fc |-> TRUE, teardown |-> FALSE, firstCause |-> "", lastBlocked |-> <<>>, doneAtTeardown |-> TRUE, srvLastSeen |-> -1, srvMustDie |-> FALSE, cliMustDie |-> FALSE, cliMustFailStart |-> FALSE, s2cDeliv |-> 0, idleC2S |-> -1, idleS2C |-> -1, takenC2S |-> 0, takenS2C |-> 0, revUsed |-> -1],ws |-> <<>>,rp |-> <<>>,tidx |-> 0]),
    ([q |-> [nsrv |-> 0, stab |-> 0, chdone |-> FALSE, at |-> FALSE, final |-> FALSE, blocked |-> <<>>, h |-> <<>>, parked |-> <<>>, ctab |-> -1, qc2s |-> 0, qs2c |-> 0, g |-> -1],bad |-> {},cfg |-> [ev |-> "open", i |-> 3, dir |-> "rev", cliNoFC |-> FALSE, srvNoFC |-> FALSE, rawCli |-> "", rawSrv |-> "", cap |-> 2, auto |-> FALSE, tmd |-> [_ |-> <<>>]],meta |-> [done |-> <<1, 2, 3>>],viol |-> {},now |-> 0,l |-> 5,tun |-> [marshalFail |-> FALSE, started |-> FALSE, startFail |-> FALSE, opened |-> TRUE, chdone |-> FALSE, chErr |-> "none", serveRet |-> FALSE, serveCls |-> "none", causes |-> {}, lastNew |-> 0, s2cSent |-> 0, settingsSent |-> 0, settingsDeliv |-> FALSE, winC2S |-> 65536, shutdown |-> FALSE, gstopRet |-> FALSE, stopCalled |-> FALSE, stopRet |-> FALSE, baseG |-> -1, fc |-> TRUE, teardown |-> FALSE, firstCause |-> "", lastBlocked |-> <<>>, doneAtTeardown |-> TRUE, srvLastSeen |-> -1, srvMustDie |-> FALSE, cliMustDie |-> FALSE, cliMustFailStart |-> FALSE, s2cDeliv |-> 0, idleC2S |-> -1, idleS2C |-> -1, takenC2S |-> 0, takenS2C |-> 0, revUsed |-> -1],ws |-> <<>>,rp |-> <<>>,tidx |-> 0]),
    ([q |-> [nsrv |-> 0, stab |-> 0, chdone |-> FALSE, at |-> TRUE, final |-> FALSE, blocked |-> <<>>, h |-> <<>>, parked |-> <<>>, ctab |-> -1, qc2s |-> 0, qs2c |-> 0, g |-> -1],bad |-> {},cfg |-> [ev |-> "open", i |-> 3, dir |-> "rev", cliNoFC |-> FALSE, srvNoFC |-> FALSE, rawCli |-> "", rawSrv |-> "", cap |-> 2, auto |-> FALSE, tmd |-> [_ |-> <<>>]],meta |-> [done |-> <<1, 2, 3>>],viol |-> {},now |-> 0,l |-> 6,tun |-> [marshalFail |-> FALSE, started |-> FALSE, startFail |-> FALSE, opened |-> TRUE, chdone |-> FALSE, chErr |-> "none", serveRet |-> FALSE, serveCls |-> "none", causes |-> {}, lastNew |-> 0, s2cSent |-> 0, settingsSent |-> 0, settingsDeliv |-> FALSE, winC2S |-> 65536, shutdown |-> FALSE, gstopRet |-> FALSE, stopCalled |-> FALSE, stopRet |-> FALSE, baseG |-> -1, fc |-> TRUE, teardown |-> FALSE, firstCause |-> "", lastBlocked |-> <<>>, doneAtTeardown |-> TRUE, srvLastSeen |-> -1, srvMustDie |-> FALSE, cliMustDie |-> FALSE, cliMustFailStart |-> FALSE, s2cDeliv |-> 0, idleC2S |-> -1, idleS2C |-> -1, takenC2S |-> 0, takenS2C |-> 0, revUsed |-> -1],ws |-> <<>>,rp |-> <<>>,tidx |-> 0]),
    ([q |-> [nsrv |-> 0, stab |-> 0, chdone |-> FALSE, at |-> FALSE, final |-> FALSE, blocked |-> <<>>, h |-> <<>>, parked |-> <<>>, ctab |-> -1, qc2s |-> 0, qs2c |-> 0, g |-> -1],bad |-> {},cfg |-> [ev |-> "open", i |-> 3, dir |-> "rev", cliNoFC |-> FALSE, srvNoFC |-> FALSE, rawCli |-> "", rawSrv |-> "", cap |-> 2, auto |-> FALSE, tmd |-> [_ |-> <<>>]],meta |-> [done |-> <<1, 2, 3>>],viol |-> {<<0, "C11_SettingsIff", 5, "">>},now |-> 0,l |-> 7,tun |-> [marshalFail |-> FALSE, started |-> FALSE, startFail |-> FALSE, opened |-> TRUE, chdone |-> FALSE, chErr |-> "none", serveRet |-> FALSE, serveCls |-> "none", causes |-> {}, lastNew |-> 0, s2cSent |-> 0, settingsSent |-> 0, settingsDeliv |-> FALSE, winC2S |-> 65536, shutdown |-> FALSE, gstopRet |-> FALSE, stopCalled |-> FALSE, stopRet |-> FALSE, baseG |-> -1, fc |-> TRUE, teardown |-> FALSE, firstCause |-> "", lastBlocked |-> <<>>, doneAtTeardown |-> TRUE, srvLastSeen |-> -1, srvMustDie |-> FALSE, cliMustDie |-> FALSE, cliMustFailStart |-> FALSE, s2cDeliv |-> 0, idleC2S |-> -1, idleS2C |-> -1, takenC2S |-> 0, takenS2C |-> 0, revUsed |-> -1],ws |-> <<>>,rp |-> <<>>,tidx |-> 0]),
    ([q |-> [nsrv |-> 0, stab |-> 0, chdone |-> FALSE, at |-> FALSE, final |-> FALSE, blocked |-> <<>>, h |-> <<>>, parked |-> <<>>, ctab |-> -1, qc2s |-> 0, qs2c |-> 0, g |-> -1],bad |-> {},cfg |-> [ev |-> "open", i |-> 3, dir |-> "rev", cliNoFC |-> FALSE, srvNoFC |-> FALSE, rawCli |-> "", rawSrv |-> "", cap |-> 2, auto |-> FALSE, tmd |-> [_ |-> <<>>]],meta |-> [done |-> <<1, 2, 3>>],viol |-> {<<0, "C11_SettingsIff", 5, "">>},now |-> 0,l |-> 8,tun |-> [marshalFail |-> FALSE, started |-> FALSE, startFail |-> FALSE, opened |-> TRUE, chdone |-> FALSE, chErr |-> "none", serveRet |-> FALSE, serveCls |-> "none", causes |-> {}, lastNew |-> 0, s2cSent |-> 0, settingsSent |-> 0, settingsDeliv |-> FALSE, winC2S |-> 65536, shutdown |-> FALSE, gstopRet |-> FALSE, stopCalled |-> FALSE, stopRet |-> FALSE, baseG |-> -1, fc |-> TRUE, teardown |-> FALSE, firstCause |-> "", lastBlocked |-> <<>>, doneAtTeardown |-> TRUE, srvLastSeen |-> -1, srvMustDie |-> FALSE, cliMustDie |-> FALSE, cliMustFailStart |-> FALSE, s2cDeliv |-> 0, idleC2S |-> -1, idleS2C |-> -1, takenC2S |-> 0, takenS2C |-> 0, revUsed |-> -1],ws |-> <<>>,rp |-> <<>>,tidx |-> 0]),
    ([q |-> [nsrv |-> 0, stab |-> 0, chdone |-> FALSE, at |-> FALSE, final |-> FALSE, blocked |-> <<>>, h |-> <<>>, parked |-> <<>>, ctab |-> -1, qc2s |-> 0, qs2c |-> 0, g |-> -1],bad |-> {},cfg |-> [ev |-> "open", i |-> 3, dir |-> "rev", cliNoFC |-> FALSE, srvNoFC |-> FALSE, rawCli |-> "", rawSrv |-> "", cap |-> 2, auto |-> FALSE, tmd |-> [_ |-> <<>>]],meta |-> [done |-> <<1, 2, 3>>],viol |-> {<<0, "C11_SettingsIff", 5, "">>},now |-> 0,l |-> 9,tun |-> [marshalFail |-> FALSE, started |-> FALSE, startFail |-> FALSE, opened |-> TRUE, chdone |-> FALSE, chErr |-> "none", serveRet |-> FALSE, serveCls |-> "none", causes |-> {}, lastNew |-> 0, s2cSent |-> 0, settingsSent |-> 0, settingsDeliv |-> FALSE, winC2S |-> 65536, shutdown |-> FALSE, gstopRet |-> FALSE, stopCalled |-> FALSE, stopRet |-> FALSE, baseG |-> -1, fc |-> TRUE, teardown |-> FALSE, firstCause |-> "", lastBlocked |-> <<>>, doneAtTeardown |-> TRUE, srvLastSeen |-> -1, srvMustDie |-> FALSE, cliMustDie |-> FALSE, cliMustFailStart |-> FALSE, s2cDeliv |-> 0, idleC2S |-> -1, idleS2C |-> -1, takenC2S |-> 0, takenS2C |-> 0, revUsed |-> -1],ws |-> <<>>,rp |-> <<>>,tidx |-> 0]),
    ([q |-> [nsrv |-> 0, stab |-> 0, chdone |-> FALSE, at |-> FALSE, final |-> FALSE, blocked |-> <<>>, h |-> <<>>, parked |-> <<>>, ctab |-> -1, qc2s |-> 0, qs2c |-> 0, g |-> -1],bad |-> {},cfg |-> [ev |-> "open", i |-> 3, dir |-> "rev", cliNoFC |-> FALSE, srvNoFC |-> FALSE, rawCli |-> "", rawSrv |-> "", cap |-> 2, auto |-> FALSE, tmd |-> [_ |-> <<>>]],meta |-> [done |-> <<1, 2, 3>>],viol |-> {<<0, "C11_SettingsIff", 5, "">>},now |-> 0,l |-> 10,tun |-> [marshalFail |-> FALSE, started |-> FALSE, startFail |-> FALSE, opened |-> TRUE, chdone |-> FALSE, chErr |-> "none", serveRet |-> FALSE, serveCls |-> "none", causes |-> {}, lastNew |-> 0, s2cSent |-> 0, settingsSent |-> 0, settingsDeliv |-> FALSE, winC2S |-> 65536, shutdown |-> FALSE, gstopRet |-> FALSE, stopCalled |-> FALSE, stopRet |-> FALSE, baseG |-> -1, fc |-> TRUE, teardown |-> FALSE, firstCause |-> "", lastBlocked |-> <<>>, doneAtTeardown |-> TRUE, srvLastSeen |-> -1, srvMustDie |-> FALSE, cliMustDie |-> FALSE, cliMustFailStart |-> FALSE, s2cDeliv |-> 0, idleC2S |-> -1, idleS2C |-> -1, takenC2S |-> 0, takenS2C |-> 0, revUsed |-> -1],ws |-> <<>>,rp |-> <<>>,tidx |-> 0]),
    ([q |-> [nsrv |-> 0, stab |-> 0, chdone |-> FALSE, at |-> FALSE, final |-> FALSE, blocked |-> <<>>, h |-> <<>>, parked |-> <<>>, ctab |-> -1, qc2s |-> 0, qs2c |-> 0, g |-> -1],bad |-> {},cfg |-> [ev |-> "open", i |-> 3, dir |-> "rev", cliNoFC |-> FALSE, srvNoFC |-> FALSE, rawCli |-> "", rawSrv |-> "", cap |-> 2, auto |-> FALSE, tmd |-> [_ |-> <<>>]],meta |-> [done |-> <<1, 2, 3>>],viol |-> {<<0, "C11_SettingsIff", 5, "">>},now |-> 0,l |-> 11,tun |-> [marshalFail |-> FALSE, started |-> FALSE, startFail |-> FALSE, opened |-> TRUE, chdone |-> FALSE, chErr |-> "none", serveRet |-> FALSE, serveCls |-> "none", causes |-> {}, lastNew |-> 0, s2cSent |-> 0, settingsSent |-> 0, settingsDeliv |-> FALSE, winC2S |-> 65536, shutdown |-> FALSE, gstopRet |-> FALSE, stopCalled |-> FALSE, stopRet |-> FALSE, baseG |-> -1, fc |-> TRUE, teardown |-> FALSE, firstCause |-> "", lastBlocked |-> <<>>, doneAtTeardown |-> TRUE, srvLastSeen |-> -1, srvMustDie |-> FALSE, cliMustDie |-> FALSE, cliMustFailStart |-> FALSE, s2cDeliv |-> 0, idleC2S |-> -1, idleS2C |-> 0, takenC2S |-> 0, takenS2C |-> 0, revUsed |-> -1],ws |-> <<>>,rp |-> <<>>,tidx |-> 0]),
    ([q |-> [nsrv |-> 0, stab |-> 0, chdone |-> FALSE, at |-> FALSE, final |-> FALSE, blocked |-> <<>>, h |-> <<>>, parked |-> <<>>, ctab |-> -1, qc2s |-> 0, qs2c |-> 0, g |-> -1],bad |-> {},cfg |-> [ev |-> "open", i |-> 3, dir |-> "rev", cliNoFC |-> FALSE, srvNoFC |-> FALSE, rawCli |-> "", rawSrv |-> "", cap |-> 2, auto |-> FALSE, tmd |-> [_ |-> <<>>]],meta |-> [done |-> <<1, 2, 3>>],viol |-> {<<0, "C11_SettingsIff", 5, "">>},now |-> 0,l |-> 12,tun |-> [marshalFail |-> FALSE, started |-> FALSE, startFail |-> FALSE, opened |-> TRUE, chdone |-> FALSE, chErr |-> "none", serveRet |-> FALSE, serveCls |-> "none", causes |-> {}, lastNew |-> 0, s2cSent |-> 0, settingsSent |-> 0, settingsDeliv |-> FALSE, winC2S |-> 65536, shutdown |-> FALSE, gstopRet |-> FALSE, stopCalled |-> FALSE, stopRet |-> FALSE, baseG |-> -1, fc |-> TRUE, teardown |-> FALSE, firstCause |-> "", lastBlocked |-> <<>>, doneAtTeardown |-> TRUE, srvLastSeen |-> -1, srvMustDie |-> FALSE, cliMustDie |-> FALSE, cliMustFailStart |-> FALSE, s2cDeliv |-> 0, idleC2S |-> 0, idleS2C |-> 0, takenC2S |-> 0, takenS2C |-> 0, revUsed |-> -1],ws |-> <<>>,rp |-> <<>>,tidx |-> 0]),
    ([q |-> [nsrv |-> 0, stab |-> 0, chdone |-> FALSE, at |-> FALSE, final |-> FALSE, blocked |-> <<>>, h |-> <<>>, parked |-> <<>>, ctab |-> -1, qc2s |-> 0, qs2c |-> 0, g |-> -1],bad |-> {},cfg |-> [ev |-> "open", i |-> 3, dir |-> "rev", cliNoFC |-> FALSE, srvNoFC |-> FALSE, rawCli |-> "", rawSrv |-> "", cap |-> 2, auto |-> FALSE, tmd |-> [_ |-> <<>>]],meta |-> [done |-> <<1, 2, 3>>],viol |-> {<<0, "C11_SettingsIff", 5, "">>},now |-> 0,l |-> 13,tun |-> [marshalFail |-> FALSE, started |-> FALSE, startFail |-> FALSE, opened |-> TRUE, chdone |-> FALSE, chErr |-> "none", serveRet |-> FALSE, serveCls |-> "none", causes |-> {}, lastNew |-> 0, s2cSent |-> 1, settingsSent |-> 1, settingsDeliv |-> FALSE, winC2S |-> 65536, shutdown |-> FALSE, gstopRet |-> FALSE, stopCalled |-> FALSE, stopRet |-> FALSE, baseG |-> -1, fc |-> TRUE, teardown |-> FALSE, firstCause |-> "", lastBlocked |-> <<>>, doneAtTeardown |-> TRUE, srvLastSeen |-> -1, srvMustDie |-> FALSE, cliMustDie |-> FALSE, cliMustFailStart |-> FALSE, s2cDeliv |-> 0, idleC2S |-> 0, idleS2C |-> 0, takenC2S |-> 0, takenS2C |-> 0, revUsed |-> -1],ws |-> <<>>,rp |-> <<>>,tidx |-> 0]),
    ([q |-> [nsrv |-> 1, stab |-> 0, chdone |-> FALSE, at |-> TRUE, final |-> FALSE, blocked |-> <<>>, h |-> <<>>, parked |-> <<>>, ctab |-> -1, qc2s |-> 0, qs2c |-> 1, g |-> -1],bad |-> {},cfg |-> [ev |-> "open", i |-> 3, dir |-> "rev", cliNoFC |-> FALSE, srvNoFC |-> FALSE, rawCli |-> "", rawSrv |-> "", cap |-> 2, auto |-> FALSE, tmd |-> [_ |-> <<>>]],meta |-> [done |-> <<1, 2, 3>>],viol |-> {<<0, "C11_SettingsIff", 5, "">>},now |-> 0,l |-> 14,tun |-> [marshalFail |-> FALSE, started |-> FALSE, startFail |-> FALSE, opened |-> TRUE, chdone |-> FALSE, chErr |-> "none", serveRet |-> FALSE, serveCls |-> "none", causes |-> {}, lastNew |-> 0, s2cSent |-> 1, settingsSent |-> 1, settingsDeliv |-> FALSE, winC2S |-> 65536, shutdown |-> FALSE, gstopRet |-> FALSE, stopCalled |-> FALSE, stopRet |-> FALSE, baseG |-> -1, fc |-> TRUE, teardown |-> FALSE, firstCause |-> "", lastBlocked |-> <<>>, doneAtTeardown |-> TRUE, srvLastSeen |-> -1, srvMustDie |-> FALSE, cliMustDie |-> FALSE, cliMustFailStart |-> FALSE, s2cDeliv |-> 0, idleC2S |-> 0, idleS2C |-> 0, takenC2S |-> 0, takenS2C |-> 0, revUsed |-> -1],ws |-> <<>>,rp |-> <<>>,tidx |-> 0]),
    ([q |-> [nsrv |-> 1, stab |-> 0, chdone |-> FALSE, at |-> FALSE, final |-> FALSE, blocked |-> <<>>, h |-> <<>>, parked |-> <<>>, ctab |-> -1, qc2s |-> 0, qs2c |-> 1, g |-> -1],bad |-> {},cfg |-> [ev |-> "open", i |-> 3, dir |-> "rev", cliNoFC |-> FALSE, srvNoFC |-> FALSE, rawCli |-> "", rawSrv |-> "", cap |-> 2, auto |-> FALSE, tmd |-> [_ |-> <<>>]],meta |-> [done |-> <<1, 2, 3>>],viol |-> {<<0, "C11_SettingsIff", 5, "">>},now |-> 0,l |-> 15,tun |-> [marshalFail |-> FALSE, started |-> FALSE, startFail |-> FALSE, opened |-> TRUE, chdone |-> FALSE, chErr |-> "none", serveRet |-> FALSE, serveCls |-> "none", causes |-> {}, lastNew |-> 0, s2cSent |-> 1, settingsSent |-> 1, settingsDeliv |-> FALSE, winC2S |-> 65536, shutdown |-> FALSE, gstopRet |-> FALSE, stopCalled |-> FALSE, stopRet |-> FALSE, baseG |-> -1, fc |-> TRUE, teardown |-> FALSE, firstCause |-> "", lastBlocked |-> <<>>, doneAtTeardown |-> TRUE, srvLastSeen |-> -1, srvMustDie |-> FALSE, cliMustDie |-> FALSE, cliMustFailStart |-> FALSE, s2cDeliv |-> 0, idleC2S |-> 0, idleS2C |-> 0, takenC2S |-> 0, takenS2C |-> 0, revUsed |-> -1],ws |-> <<>>,rp |-> <<>>,tidx |-> 0])
    >>
----


=============================================================================

---- CONFIG TunnelMon_TTrace_1790388843 ----
CONSTANTS
    W = 65536
    CH = 16384

INVARIANT
    _inv

CHECK_DEADLOCK
    \* CHECK_DEADLOCK off because of PROPERTY or INVARIANT above.
    FALSE

INIT
    _init

NEXT
    _next

CONSTANT
    _TETrace <- _trace

ALIAS
    _expression
=============================================================================
\* Generated on Sat Sep 26 02:14:05 UTC 2026