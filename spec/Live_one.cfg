SPECIFICATION LiveSpec
CONSTANTS
  W = 4
  CH = 2
  RPCs <- One
  CScript <- C_one
  SScript <- S_one
  Faults <- NoFaults
  MaxFaults = 0
  Stepped = FALSE
  Dir = "fwd"
CHECK_DEADLOCK FALSE
PROPERTIES
  AllCallerOpsReturn
  HandlersEnd
