SPECIFICATION TSpec
CONSTANTS
  W0 = 3
  CH = 2
  Msg = 4
  Credits <- Cr_none
  MayCancel = TRUE
CHECK_DEADLOCK FALSE
INVARIANTS TypeOK Conservation ChunkMax FramingOK NoLostWakeup LegitStop
