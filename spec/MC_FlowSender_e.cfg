SPECIFICATION Spec
CONSTANTS
  W0 = 0
  CH = 3
  Msg = 0
  Credits <- Cr_c
  MayCancel = TRUE
CHECK_DEADLOCK FALSE
INVARIANTS TypeOK Conservation ChunkMax FramingOK NoLostWakeup LegitStop
PROPERTIES CancelReturns
