------------------------------ MODULE TunnelObs ------------------------------
(***************************************************************************)
(* Observation automaton and property formulas for one grpctunnel tunnel.  *)
(*                                                                         *)
(* The state of this module is OBSERVATION-DERIVED: the wire automaton of  *)
(* every stream (frames as sent and as delivered), what each application   *)
(* submitted and obtained on both ends of every RPC, credit accounting,    *)
(* tunnel-level causes and the last quiescent-point report.  It is driven  *)
(* by EVENTS (records): every operator O<Kind>(e) below is the transition  *)
(* for one kind of event.  Two specifications drive it:                    *)
(*                                                                         *)
(*   TunnelMon.tla  - events are the lines of a log recorded from the real *)
(*                    library by the harness (trace validation);           *)
(*   Tunnel.tla     - events are produced by the actions of the detailed   *)
(*                    model of the implementation (exhaustive checking).   *)
(*                                                                         *)
(* The property formulas Cxx_* only talk about this state, so the same     *)
(* formulas judge the design (all interleavings, small constants) and the  *)
(* real executions (real constants), whatever the internal structure of    *)
(* the implementation is.                                                  *)
(***************************************************************************)
EXTENDS Integers, Sequences, FiniteSets, TLC, SequencesExt

CONSTANTS W,    \* initial flow-control window advertised by this library (65536)
          CH    \* maximum number of message bytes in one frame (16384)

VARIABLES cfg,    \* the "open" event (configuration of the tunnel)
          ws,     \* per stream id: wire automaton + delivery accounting
          rp,     \* per RPC (harness number): application-level history
          tun,    \* tunnel-level observations
          bad,    \* protocol-rule breaches detected at the step where they occur: {<<clause, sid>>}
          now,    \* virtual time in ms
          q,      \* the last quiescent-point record; q.at = TRUE only right after a "q" event
          meta    \* expectations stated by the scenario generator

ovars == <<cfg, ws, rp, tun, bad, now, q, meta>>

Max2(a, b) == IF a > b THEN a ELSE b
Min2(a, b) == IF a < b THEN a ELSE b

---------------------------------------------------------------------------
(* Metadata: a function from keys to sequences of values; every metadata  *)
(* object carries the sentinel key "_" so that it is never empty.          *)
MD0 == [k \in {"_"} |-> <<>>]
MDJoin(a, b) == [k \in (DOMAIN a) \cup (DOMAIN b) |->
                    (IF k \in DOMAIN a THEN a[k] ELSE <<>>) \o (IF k \in DOMAIN b THEN b[k] ELSE <<>>)]
MDEq(a, b) == /\ DOMAIN a = DOMAIN b
              /\ \A k \in DOMAIN a : a[k] = b[k]

SumSeq(s) == LET RECURSIVE Sum(_)
                 Sum(i) == IF i = 0 THEN 0 ELSE s[i] + Sum(i - 1)
             IN Sum(Len(s))

Prefix(s, n) == SubSeq(s, 1, Min2(n, Len(s)))

---------------------------------------------------------------------------
(* Initial records                                                         *)

NoClose == [code |-> -1, msg |-> "", det |-> "0", md |-> MD0]
NoRes   == [cls |-> "none", code |-> 0, msg |-> "", det |-> "0"]

WS0 == [ rpc |-> 0, news |-> 0, rev |-> -1, win |-> 0, method |-> "", mshape |-> "", md |-> MD0,
         first |-> "",                \* kind of the first c2s frame of this id
         \* client-to-server frames as sent
         cOpen |-> -1, cEnv |-> <<>>, cBytes |-> 0, cHalf |-> 0, cCancel |-> 0, cWuSum |-> 0,
         \* server-to-client frames as sent
         sOpen |-> -1, sEnv |-> <<>>, sBytes |-> 0, sHdr |-> 0, sHdrMD |-> MD0, sClose |-> 0,
         close |-> NoClose, sWuSum |-> 0, hEnded |-> FALSE, sAfter |-> 0,
         \* delivery to the tunnel server
         newDeliv |-> FALSE, newAfterShutdown |-> FALSE, cPend |-> <<>>, cDataSum |-> 0, cOpenD |-> -1, cMsgsD |-> 0,
         halfDeliv |-> FALSE, cancelDeliv |-> FALSE, cWuD |-> 0, sViolD |-> FALSE,
         \* delivery to the tunnel client
         hdrDeliv |-> FALSE, sPend |-> <<>>, sDataSum |-> 0, sOpenD |-> -1, sMsgsD |-> 0, closeDeliv |-> FALSE,
         sWuD |-> 0, cViolD |-> FALSE,
         \* first terminal cause seen by the tunnel client for this stream
         cliEnd |-> "",
         \* status codes that stream-level protocol violations delivered so far justify (raw peers);
         \* immediate: the endpoint must fail the stream on delivery, without any application call
         sViol |-> {}, sViolNow |-> FALSE, cViol |-> {}, cViolNow |-> FALSE,
         \* the close frame was taken off the carrier but the receive loop is held before handing it to the stream
         closeHeld |-> FALSE ]

RP0 == [ shape |-> "", sid |-> 0, cstart |-> FALSE, started |-> FALSE, startFail |-> FALSE,
         t0 |-> 0, timeout |-> 0, method |-> "", mdSent |-> MD0, opts |-> <<>>,
         sentC |-> <<>>, okC |-> 0, errC |-> 0, gotS |-> <<>>, intactS |-> TRUE, sEOF |-> FALSE, okCatEOF |-> 0,
         sentS |-> <<>>, okS |-> 0, errS |-> 0, gotC |-> <<>>, intactC |-> TRUE,
         recvC |-> 0, recvS |-> 0,
         cRes |-> NoRes, cResMismatch |-> FALSE, trlSeen |-> FALSE, trl |-> MD0, trlT |-> MD0, hasTrlT |-> FALSE,
         hdrSeen |-> FALSE, hdr |-> MD0, hdrMismatch |-> FALSE, hdrT |-> MD0, hasHdrT |-> FALSE, hdrTBad |-> FALSE,
         cancelled |-> FALSE, localCause |-> {},
         inv |-> 0, invShape |-> "", invMethod |-> "", invMD |-> MD0,
         hHdr |-> MD0, hHdrPend |-> MD0, hHdrBusy |-> FALSE, hTrl |-> MD0, hRet |-> NoClose, hRetStarted |-> FALSE,
         hResp |-> -1,
         secondSendC |-> "none", secondSendS |-> "none",
         hdrBad |-> FALSE, hdrLate |-> FALSE, failFastBad |-> FALSE, afterDone |-> FALSE,
         \* identity accessors (C17)
         idC |-> FALSE, tmdC |-> MD0, chctx |-> 0, hasChopt |-> FALSE, chopt |-> 0,
         idS |-> FALSE, tmdS |-> MD0, peerS |-> "", ivalS |-> "" ]

Tun0 == [ opened |-> FALSE, started |-> FALSE, startFail |-> FALSE, chdone |-> FALSE, chErr |-> "none",
          serveRet |-> FALSE, serveCls |-> "none", causes |-> {},
          lastNew |-> 0, s2cSent |-> 0, settingsSent |-> 0, settingsDeliv |-> FALSE, winC2S |-> W,
          shutdown |-> FALSE, gstopRet |-> FALSE, stopCalled |-> FALSE, stopRet |-> FALSE,
          baseG |-> -1, fc |-> TRUE, teardown |-> FALSE, marshalFail |-> FALSE,
          firstCause |-> "", lastBlocked |-> <<>>, doneAtTeardown |-> TRUE,
          \* what the tunnel endpoints must have concluded from the frames delivered so far
          srvLastSeen |-> -1, srvMustDie |-> FALSE, cliMustDie |-> FALSE, cliMustFailStart |-> FALSE,
          s2cDeliv |-> 0, idleC2S |-> -1, idleS2C |-> -1, takenC2S |-> 0, takenS2C |-> 0, revUsed |-> -1, chid |-> 0,
          \* the channel has recorded its end (hook cli.close.marked); Err() was first read before that
          closeMarked |-> FALSE, chEarly |-> FALSE,
          \* Err() of the channel as read at a quiescent point after Done() ("ok" = nil), "none" before
          chSettled |-> "none",
          \* live heap of the process (MiB, after a full collection): first observation of the scenario, maximum
          heapBase |-> -1, heapMax |-> -1,
          \* the transport refused a single Send (harness fault "sendfail"): the RPC it belonged to is disturbed in
          \* ways only the application can resolve
          sendFailed |-> FALSE ]

Q0 == [ at |-> FALSE, final |-> FALSE, blocked |-> <<>>, h |-> <<>>, parked |-> <<>>, ctab |-> -1, stab |-> 0,
        nsrv |-> 0, qc2s |-> 0, qs2c |-> 0, g |-> -1, chdone |-> FALSE ]

Cfg0 == [ dir |-> "fwd", cliNoFC |-> FALSE, srvNoFC |-> FALSE, rawCli |-> "", rawSrv |-> "", cap |-> 0, auto |-> FALSE ]

WSof(s) == IF s \in DOMAIN ws THEN ws[s] ELSE WS0
RPof(r) == IF r \in DOMAIN rp THEN rp[r] ELSE RP0

SetWS(s, rec) == [x \in (DOMAIN ws) \cup {s} |-> IF x = s THEN rec ELSE ws[x]]
SetRP(r, rec) == [x \in (DOMAIN rp) \cup {r} |-> IF x = r THEN rec ELSE rp[x]]

RealCli == cfg.rawCli = ""
RealSrv == cfg.rawSrv = ""

\* Flow control is expected on this tunnel iff both ends advertise negotiation
\* and neither has disabled it.
\* a raw peer negotiates only if it says exactly "on" (mode "neg")
FCExpected == /\ ~cfg.cliNoFC /\ ~cfg.srvNoFC
              /\ cfg.rawCli \in {"", "neg"} /\ cfg.rawSrv \in {"", "neg"}

\* the protocol revision a real tunnel client must use: the highest both ends support
ExpectedRev == IF RealSrv THEN (IF FCExpected THEN 1 ELSE 0)
               ELSE IF cfg.rawSrv = "legacy" THEN 0
               ELSE tun.revUsed

OInit ==
  /\ cfg = Cfg0
  /\ ws = [x \in {} |-> WS0] /\ rp = [x \in {} |-> RP0] /\ tun = Tun0 /\ bad = {}
  /\ now = 0 /\ q = Q0 /\ meta = [done |-> <<>>]

QOff == q' = [q EXCEPT !.at = FALSE]

---------------------------------------------------------------------------
(* The wire automaton: frames as they are SENT.                            *)

Flag(cond, clause, s) == IF cond THEN {<<clause, s>>} ELSE {}

\* An RPC started without any metadata carries no harness tag on the wire: it is the
\* (lowest-numbered) such RPC whose start is in progress and whose stream id is not known yet
Untagged(r) == /\ rp[r].cstart /\ rp[r].sid = 0 /\ ~rp[r].startFail
               /\ \E i \in 1..Len(rp[r].opts) : rp[r].opts[i] = "nomd"
               /\ ~\E i \in 1..Len(rp[r].opts) : rp[r].opts[i] = "creds"
TagOf(e) == IF e.rpc # 0 THEN e.rpc
            ELSE IF \E r \in DOMAIN rp : Untagged(r)
                 THEN CHOOSE r \in DOMAIN rp : Untagged(r) /\ \A x \in DOMAIN rp : Untagged(x) => r <= x
                 ELSE 0

SendC2S(e, w) ==
  LET s == e.sid IN
  CASE e.kind = "new" ->
        [ w EXCEPT !.news = @ + 1, !.rpc = TagOf(e), !.rev = e.rev, !.win = e.win, !.method = e.method, !.mshape = e.mshape,
                   !.md = e.md, !.first = IF @ = "" THEN "new" ELSE @,
                   \* the RPC's context may have ended before its stream reached the wire
                   !.cliEnd = IF @ = "" /\ TagOf(e) \in DOMAIN rp /\ rp[TagOf(e)].localCause # {}
                              THEN (IF 1 \in rp[TagOf(e)].localCause THEN "cancel"
                                    ELSE IF 4 \in rp[TagOf(e)].localCause THEN "deadline" ELSE "encode") ELSE @ ]
    [] e.kind = "msg" ->
        [ w EXCEPT !.cOpen = e.size - e.len, !.cEnv = Append(@, e.size), !.cBytes = @ + e.len,
                   !.first = IF @ = "" THEN "msg" ELSE @ ]
    [] e.kind = "more" ->
        [ w EXCEPT !.cOpen = IF @ > 0 THEN @ - e.len ELSE @, !.cBytes = @ + e.len,
                   !.first = IF @ = "" THEN "more" ELSE @ ]
    [] e.kind = "half" ->
        [ w EXCEPT !.cHalf = @ + 1, !.first = IF @ = "" THEN "half" ELSE @ ]
    [] e.kind = "cancel" ->
        [ w EXCEPT !.cCancel = @ + 1, !.first = IF @ = "" THEN "cancel" ELSE @ ]
    [] e.kind = "wu" ->
        \* a window update must be exactly the length of the oldest data frame taken and not yet credited
        [ w EXCEPT !.cWuSum = @ + e.len, !.first = IF @ = "" THEN "wu" ELSE @,
                   !.sPend = IF @ # <<>> /\ Head(@) = e.len THEN Tail(@) ELSE @ ]
    [] OTHER -> [ w EXCEPT !.first = IF @ = "" THEN e.kind ELSE @ ]

\* Breaches of the documented protocol by a frame the (real) tunnel client sends.
BadC2S(e, w) ==
  LET s == e.sid IN
  CASE e.kind = "new" ->
           Flag(s <= tun.lastNew, "ids.increasing", s)
      \cup Flag(w.news > 0, "ids.dup", s)
      \cup Flag(ExpectedRev >= 0 /\ e.rev # ExpectedRev, "neg.rev", s)
    [] e.kind = "msg" ->
           Flag(w.news = 0, "newfirst", s)
      \cup Flag(w.cOpen > 0, "framing.envelope-inside-message", s)
      \cup Flag(e.len > e.size, "framing.len>size", s)
      \cup Flag(e.len > CH, "chunkmax", s)
      \cup Flag(w.cHalf > 0, "data-after-half", s)
    [] e.kind = "more" ->
           Flag(w.news = 0, "newfirst", s)
      \cup Flag(w.cOpen <= 0, "framing.continuation-without-message", s)
      \cup Flag(w.cOpen > 0 /\ e.len > w.cOpen, "framing.overrun-of-size", s)
      \cup Flag(e.len > CH, "chunkmax", s)
      \cup Flag(w.cHalf > 0, "data-after-half", s)
    [] e.kind = "half" ->
           Flag(w.news = 0, "newfirst", s)
      \cup Flag(w.cHalf > 0, "half.twice", s)
    [] e.kind = "cancel" ->
           Flag(w.news = 0, "newfirst", s)
      \cup Flag(w.cCancel > 0, "cancel.twice", s)
    [] e.kind = "wu" ->
           Flag(w.news = 0, "newfirst", s)
      \cup Flag(w.rev = 0, "legacy.wu", s)
      \cup Flag(~(w.sPend # <<>> /\ Head(w.sPend) = e.len), "credit.inexact", s)
    [] OTHER -> {<<"unknown-frame", s>>}

SendS2C(e, w) ==
  CASE e.kind = "hdr" -> [ w EXCEPT !.sHdr = @ + 1, !.sHdrMD = IF w.sHdr = 0 THEN e.md ELSE @,
                                    !.sAfter = IF w.sClose > 0 THEN @ + 1 ELSE @ ]
    [] e.kind = "msg" -> [ w EXCEPT !.sOpen = e.size - e.len, !.sEnv = Append(@, e.size), !.sBytes = @ + e.len,
                                    !.sAfter = IF w.sClose > 0 THEN @ + 1 ELSE @ ]
    [] e.kind = "more" -> [ w EXCEPT !.sOpen = IF @ > 0 THEN @ - e.len ELSE @, !.sBytes = @ + e.len,
                                     !.sAfter = IF w.sClose > 0 THEN @ + 1 ELSE @ ]
    [] e.kind = "close" ->
         [ w EXCEPT !.sClose = @ + 1,
                    !.close = IF w.sClose = 0 THEN [code |-> e.code, msg |-> e.msg, det |-> e.det, md |-> e.md] ELSE @,
                    \* did the handler end this stream (it returned before the peer's cancel arrived)?
                    !.hEnded = IF w.sClose = 0 THEN (w.rpc \in DOMAIN rp /\ rp[w.rpc].hRetStarted /\ ~w.cancelDeliv /\ ~w.sViolD) ELSE @ ]
    [] e.kind = "wu" -> [ w EXCEPT !.sWuSum = @ + e.len, !.sAfter = IF w.sClose > 0 THEN @ + 1 ELSE @,
                                   !.cPend = IF @ # <<>> /\ Head(@) = e.len THEN Tail(@) ELSE @ ]
    [] OTHER -> w

BadS2C(e, w) ==
  LET s == e.sid IN
  CASE e.kind = "settings" ->
           Flag(tun.s2cSent > 0, "settings.not-first", s)
      \cup Flag(s # -1, "settings.sid", s)
      \cup Flag(cfg.rawCli \notin {"", "neg"}, "legacy.settings", s)
    [] e.kind = "hdr" ->
           Flag(w.sHdr > 0, "hdr.twice", s)
      \cup Flag(Len(w.sEnv) > 0 /\ ~w.cancelDeliv, "hdr.after-message", s)
      \cup Flag(w.hEnded, "after-close", s)
    [] e.kind = "msg" ->
           Flag(w.sOpen > 0, "framing.envelope-inside-message", s)
      \cup Flag(e.len > e.size, "framing.len>size", s)
      \cup Flag(e.len > CH, "chunkmax", s)
      \* (after the caller's cancel was delivered the stream's remaining output is discarded
      \*  by the caller; the asynchronous close sender may then be overtaken by the handler)
      \cup Flag(w.sHdr = 0 /\ ~w.cancelDeliv, "msg.before-hdr", s)
      \cup Flag(w.hEnded, "after-close", s)
    [] e.kind = "more" ->
           Flag(w.sOpen <= 0, "framing.continuation-without-message", s)
      \cup Flag(w.sOpen > 0 /\ e.len > w.sOpen, "framing.overrun-of-size", s)
      \cup Flag(e.len > CH, "chunkmax", s)
      \cup Flag(w.hEnded, "after-close", s)
    [] e.kind = "close" ->
           Flag(w.sClose > 0, "close.twice", s)
      \cup Flag(~w.newDeliv, "close.unknown-stream", s)
    [] e.kind = "wu" ->
           Flag(w.rev = 0, "legacy.wu", s)
      \cup Flag(w.hEnded, "after-close", s)
      \cup Flag(~(w.cPend # <<>> /\ Head(w.cPend) = e.len), "credit.inexact", s)
    [] OTHER -> {<<"unknown-frame", s>>}

OWireSend(e) ==
  /\ LET s == e.sid
         w == WSof(s)
     IN IF e.dir = "c2s"
        THEN /\ ws' = SetWS(s, SendC2S(e, w))
             /\ bad' = IF RealCli THEN bad \cup BadC2S(e, w) ELSE bad
             /\ tun' = IF e.kind = "new" THEN [tun EXCEPT !.lastNew = Max2(@, s)] ELSE tun
        ELSE /\ ws' = IF e.kind = "settings" THEN ws ELSE SetWS(s, SendS2C(e, w))
             /\ bad' = IF RealSrv THEN bad \cup BadS2C(e, w) ELSE bad
             /\ tun' = IF e.kind = "settings" THEN [tun EXCEPT !.settingsSent = @ + 1, !.s2cSent = @ + 1]
                       ELSE [tun EXCEPT !.s2cSent = @ + 1]
  /\ rp' = IF e.dir = "c2s" /\ e.kind = "new" /\ TagOf(e) # 0
            THEN SetRP(TagOf(e), [ RPof(TagOf(e)) EXCEPT !.sid = e.sid ]) ELSE rp
  /\ QOff
  /\ UNCHANGED <<cfg, now, meta>>

---------------------------------------------------------------------------
(* Frames as they are DELIVERED to the receiving endpoint.                 *)

\* reassembly on the delivered side: remaining bytes of the open message
OpenAfter(open, f) ==
  IF f.kind = "msg" THEN f.size - f.len
  ELSE IF open > 0 THEN open - f.len ELSE open

Completes(open, f) ==
  \/ f.kind = "msg" /\ f.len = f.size
  \/ f.kind = "more" /\ open > 0 /\ f.len = open

\* first terminal cause at the tunnel client for a stream
CliEnd(w, cause) == IF w.cliEnd = "" THEN cause ELSE w.cliEnd

DelivC2S(f, w) ==
  CASE f.kind = "new" -> [ w EXCEPT !.newDeliv = TRUE, !.newAfterShutdown = tun.shutdown ]
    [] f.kind \in {"msg", "more"} ->
         [ w EXCEPT !.cPend = IF f.len > 0 THEN Append(@, f.len) ELSE @, !.cDataSum = @ + f.len,
                    !.cOpenD = OpenAfter(w.cOpenD, f),
                    !.cMsgsD = IF Completes(w.cOpenD, f) /\ ~w.halfDeliv THEN @ + 1 ELSE @ ]
    [] f.kind = "half" -> [ w EXCEPT !.halfDeliv = TRUE ]
    [] f.kind = "cancel" -> [ w EXCEPT !.cancelDeliv = TRUE ]
    [] f.kind = "wu" -> [ w EXCEPT !.cWuD = @ + f.len ]
    [] OTHER -> w

DelivS2C(f, w) ==
  CASE f.kind = "hdr" -> [ w EXCEPT !.hdrDeliv = TRUE ]
    [] f.kind \in {"msg", "more"} ->
         [ w EXCEPT !.sPend = IF f.len > 0 THEN Append(@, f.len) ELSE @, !.sDataSum = @ + f.len,
                    !.sOpenD = OpenAfter(w.sOpenD, f),
                    !.sMsgsD = IF Completes(w.sOpenD, f) /\ ~w.closeDeliv THEN @ + 1 ELSE @ ]
    [] f.kind = "close" -> [ w EXCEPT !.closeDeliv = TRUE, !.cliEnd = CliEnd(w, "close") ]
    [] f.kind = "wu" -> [ w EXCEPT !.sWuD = @ + f.len ]
    [] OTHER -> w

(* What a frame delivered to the tunnel SERVER obliges it to do (the documented outcome     *)
(* classes): a frame that opens an id not greater than all ids seen, or any other frame  *)
(* for an id greater than all ids seen, is a tunnel-level violation; everything else is  *)
(* at most a stream-level matter.                                                        *)
SrvAlive == ~tun.serveRet /\ ~tun.srvMustDie
SrvTunnelViolation(f) == IF f.kind = "new" THEN f.sid <= tun.srvLastSeen ELSE f.sid > tun.srvLastSeen

\* status code with which a new stream must be refused (0: accepted)
NewRefusal(f) ==
  IF tun.shutdown THEN 14
  ELSE IF f.rev \notin {0, 1} THEN 14
  ELSE IF f.mclass \in {"empty", "malformed"} THEN 3
  ELSE IF f.mclass = "unknown" THEN 12
  ELSE 0

\* bytes the server's receiver of stream w still has room for (no credit call is in progress at
\* the moments frames are delivered in stepped runs)
SrvRoom(w) == W - (w.cDataSum - w.sWuSum)
CliRoom(w) == W - (w.sDataSum - w.cWuSum)

SrvStreamViolation(f, w) ==
  \* only for a stream the server still serves
  IF ~w.newDeliv \/ w.sClose > 0 \/ w.cancelDeliv THEN [codes |-> {}, now |-> FALSE]
  ELSE CASE f.kind = "junk" -> [codes |-> {2}, now |-> TRUE]
         [] f.kind \in {"msg", "more"} /\ ~w.halfDeliv /\ w.rev = 1 /\ f.len > SrvRoom(w) -> [codes |-> {8}, now |-> TRUE]
         [] f.kind = "msg" /\ ~w.halfDeliv /\ (w.cOpenD > 0 \/ f.len > f.size) -> [codes |-> {3}, now |-> FALSE]
         [] f.kind = "more" /\ ~w.halfDeliv /\ (w.cOpenD <= 0 \/ f.len > w.cOpenD) -> [codes |-> {3}, now |-> FALSE]
         [] f.kind \in {"msg", "more"} /\ ~w.halfDeliv /\ Completes(w.cOpenD, f) /\ w.cMsgsD >= 1
              /\ w.mshape \in {"unary", "sstream"} -> [codes |-> {3}, now |-> FALSE]
         [] OTHER -> [codes |-> {}, now |-> FALSE]

CliAlive == ~tun.chdone /\ ~tun.cliMustDie /\ ~tun.startFail
CliTunnelViolation(f) == tun.lastNew = 0 \/ f.sid > tun.lastNew

CliStreamViolation(f, w) ==
  IF w.news = 0 \/ w.cliEnd # "" THEN [codes |-> {}, now |-> FALSE]
  ELSE CASE f.kind \in {"junk", "settings"} -> [codes |-> {-1}, now |-> TRUE]
         [] f.kind \in {"msg", "more"} /\ w.rev = 1 /\ f.len > CliRoom(w) -> [codes |-> {8}, now |-> TRUE]
         [] f.kind = "msg" /\ (w.sOpenD > 0 \/ f.len > f.size) -> [codes |-> {13}, now |-> FALSE]
         [] f.kind = "more" /\ (w.sOpenD <= 0 \/ f.len > w.sOpenD) -> [codes |-> {13}, now |-> FALSE]
         [] OTHER -> [codes |-> {}, now |-> FALSE]

\* the event of a delivery carries the fields of the frame itself
OWireRecv(f) ==
  /\ LET s == f.sid
         w == WSof(s)
     IN IF f.dir = "c2s"
        THEN IF SrvAlive /\ SrvTunnelViolation(f)
             THEN /\ ws' = ws
                  /\ tun' = [tun EXCEPT !.srvMustDie = TRUE, !.takenC2S = @ + 1]
             ELSE LET v == SrvStreamViolation(f, w)
                      w1 == DelivC2S(f, w)
                      w2 == IF f.kind = "new" /\ SrvAlive /\ NewRefusal(f) # 0
                            THEN [w1 EXCEPT !.sViol = {NewRefusal(f)}, !.sViolNow = TRUE]
                            ELSE [w1 EXCEPT !.sViol = @ \cup v.codes, !.sViolNow = @ \/ v.now,
                                            !.sViolD = @ \/ v.now]
                  IN /\ ws' = SetWS(s, w2)
                     /\ tun' = [tun EXCEPT !.takenC2S = @ + 1,
                                           !.srvLastSeen = IF f.kind = "new" /\ SrvAlive THEN f.sid ELSE @]
        ELSE IF tun.s2cDeliv = 0 /\ cfg.rawSrv = "neg" /\ RealCli
             THEN \* the first frame from a negotiating server must be a well-formed settings frame
                  \* naming a revision this client supports
                  LET malformed == \/ f.kind # "settings" \/ f.sid # -1
                             \* (a settings message listing no revisions means revision zero)
                             \/ (Len(f.revs) > 0 /\ ~\E i \in 1..Len(f.revs) : f.revs[i] \in (IF cfg.cliNoFC THEN {0} ELSE {0, 1}))
                  IN /\ ws' = ws
                     /\ tun' = [tun EXCEPT !.s2cDeliv = 1, !.takenS2C = @ + 1, !.cliMustFailStart = malformed,
                                           !.settingsDeliv = ~malformed, !.winC2S = IF malformed THEN @ ELSE f.win,
                                           !.revUsed = IF malformed THEN -1
                                                       ELSE IF ~cfg.cliNoFC /\ \E i \in 1..Len(f.revs) : f.revs[i] = 1 THEN 1 ELSE 0]
             ELSE IF f.kind = "settings" /\ tun.s2cDeliv = 0
             THEN /\ ws' = ws
                  /\ tun' = [tun EXCEPT !.settingsDeliv = TRUE, !.winC2S = f.win, !.s2cDeliv = 1, !.takenS2C = @ + 1]
             ELSE IF ~RealSrv /\ CliAlive /\ CliTunnelViolation(f)
             THEN /\ ws' = ws
                  /\ tun' = [tun EXCEPT !.cliMustDie = TRUE, !.s2cDeliv = @ + 1, !.takenS2C = @ + 1]
             ELSE LET v == IF RealSrv THEN [codes |-> {}, now |-> FALSE] ELSE CliStreamViolation(f, w)
                      w1 == IF f.kind = "settings" THEN w ELSE DelivS2C(f, w)
                      w2 == [w1 EXCEPT !.cViol = @ \cup v.codes, !.cViolNow = @ \/ v.now, !.cViolD = @ \/ v.now,
                                       !.cliEnd = IF v.now /\ w.cliEnd = "" THEN "violation" ELSE w1.cliEnd]
                  IN /\ ws' = SetWS(s, w2)
                     /\ tun' = [tun EXCEPT !.s2cDeliv = @ + 1, !.takenS2C = @ + 1]
  /\ QOff
  /\ UNCHANGED <<cfg, rp, bad, now, meta>>

---------------------------------------------------------------------------
(* Application calls.                                                      *)

IdOf(m) == <<m.rpc, m.side, m.idx, m.size>>

ResOf(e) == [cls |-> e.cls, code |-> e.code, msg |-> e.msg, det |-> e.det]

\* a terminal result observed by the caller: the first one is kept, any later
\* one must be the same
Terminal(r, e) ==
  IF r.cRes.cls = "none"
  THEN [ r EXCEPT !.cRes = ResOf(e) ]
  ELSE [ r EXCEPT !.cResMismatch = @ \/ (ResOf(e) # r.cRes) ]

WithTrailers(r, e) ==
  IF "trl" \in DOMAIN e /\ ~r.trlSeen
  THEN [ r EXCEPT !.trlSeen = TRUE, !.trl = e.trl,
                  !.hasTrlT = "trlT" \in DOMAIN e,
                  !.trlT = IF "trlT" \in DOMAIN e THEN e.trlT ELSE MD0 ]
  ELSE r

HasOpt(o, x) == \E i \in 1..Len(o) : o[i] = x
OOpStart(e) ==
  /\ LET r == RPof(e.rpc)
     IN rp' = SetRP(e.rpc,
          IF e.end = "c" THEN
            CASE e.op \in {"new", "invoke"} ->
                   LET r1 == [ r EXCEPT !.shape = e.shape, !.cstart = TRUE, !.t0 = now, !.timeout = e.timeout,
                                        !.method = e.method, !.mdSent = e.md, !.opts = e.opts,
                                        !.afterDone = tun.chdone ]
                   IN IF e.op = "invoke"
                      THEN IF HasOpt(e.opts, "badreq")
                           \* the application passes a request that cannot be encoded: the call ends there (local cause 5),
                           \* nothing of the request is sent
                           THEN [ r1 EXCEPT !.localCause = @ \cup {5} ]
                           ELSE [ r1 EXCEPT !.sentC = Append(@, <<e.rpc, "c", e.idx, e.size>>), !.recvC = @ + 2 ]
                      ELSE r1
              [] e.op = "send" ->
                   \* (a message that cannot be encoded is refused and nothing of it is sent)
                   IF "bad" \in DOMAIN e THEN r ELSE [ r EXCEPT !.sentC = Append(@, <<e.rpc, "c", e.idx, e.size>>) ]
              [] e.op = "recv" -> [ r EXCEPT !.recvC = @ + 1 ]
              [] OTHER -> r
          ELSE
            CASE e.op = "send" -> [ r EXCEPT !.sentS = Append(@, <<e.rpc, "s", e.idx, e.size>>) ]
              [] e.op = "recv" -> [ r EXCEPT !.recvS = @ + 1 ]
              [] e.op \in {"sethdr", "sendhdr"} ->
                   \* counted once (and if) the call has been accepted, see its return
                   [ r EXCEPT !.hHdrPend = e.md, !.hHdrBusy = TRUE ]
              [] e.op = "settrl" ->
                   IF ~r.hRetStarted THEN [ r EXCEPT !.hTrl = MDJoin(@, e.md) ] ELSE r
              [] e.op = "ret" ->
                   LET r1 == [ r EXCEPT !.hRetStarted = TRUE,
                                        !.hRet = [code |-> e.code, msg |-> e.msg, det |-> e.det, md |-> r.hTrl] ]
                   IN IF r.shape = "unary" /\ e.code = 0 /\ e.n >= 0
                      THEN [ r1 EXCEPT !.hResp = e.size ] ELSE r1
              [] OTHER -> r)
  /\ QOff
  /\ UNCHANGED <<cfg, ws, tun, bad, now, meta>>

OOpRet(e) ==
  /\ LET r == RPof(e.rpc)
     IN rp' = SetRP(e.rpc,
          IF e.end = "c" THEN
            CASE e.op = "new" ->
                   IF e.cls = "ok"
                   THEN [ r EXCEPT !.started = TRUE, !.failFastBad = r.afterDone,
                                   !.idC = "tmd" \in DOMAIN e, !.tmdC = IF "tmd" \in DOMAIN e THEN e.tmd ELSE MD0,
                                   !.chctx = IF "chctx" \in DOMAIN e THEN e.chctx ELSE 0,
                                   !.hasChopt = "chopt" \in DOMAIN e, !.chopt = IF "chopt" \in DOMAIN e THEN e.chopt ELSE 0 ]
                   ELSE [ r EXCEPT !.startFail = TRUE ]
              [] e.op = "invoke" ->
                   LET r1 == IF e.cls = "ok"
                             THEN [ r EXCEPT !.gotC = Append(@, IdOf(e.m)), !.intactC = @ /\ e.m.intact, !.okC = @ + 1 ]
                             ELSE r
                       \* an OK Invoke is the terminal result EOF after exactly one message
                       r2 == Terminal(r1, IF e.cls = "ok" THEN [e EXCEPT !.cls = "eof"] ELSE e)
                   IN [ r2 EXCEPT !.failFastBad = r.afterDone /\ e.cls = "ok", !.trlSeen = "trlT" \in DOMAIN e,
                                  !.hasChopt = "chopt" \in DOMAIN e /\ e.cls = "ok", !.chopt = IF "chopt" \in DOMAIN e THEN e.chopt ELSE 0, !.hasTrlT = "trlT" \in DOMAIN e,
                                  !.trlT = IF "trlT" \in DOMAIN e THEN e.trlT ELSE MD0,
                                  !.trl = IF "trlT" \in DOMAIN e THEN e.trlT ELSE MD0,
                                  !.hasHdrT = "hdrT" \in DOMAIN e,
                                  !.hdrT = IF "hdrT" \in DOMAIN e THEN e.hdrT ELSE MD0 ]
              [] e.op = "send" ->
                   LET second == r.shape \in {"unary", "sstream"} /\ e.idx >= 1 IN
                   IF e.cls = "ok"
                   THEN [ r EXCEPT !.okC = @ + 1, !.secondSendC = IF second THEN "accepted" ELSE @ ]
                   ELSE [ r EXCEPT !.errC = @ + 1, !.secondSendC = IF second /\ @ = "none" THEN "refused" ELSE @ ]
              [] e.op = "recv" ->
                   IF e.cls = "ok"
                   THEN [ r EXCEPT !.gotC = Append(@, IdOf(e.m)), !.intactC = @ /\ e.m.intact,
                                   !.hdrLate = @ \/ (RealSrv /\ r.sid \in DOMAIN ws /\ ~ws[r.sid].hdrDeliv) ]
                   ELSE WithTrailers(Terminal(r, e), e)
              [] e.op = "header" ->
                   IF e.cls = "ok"
                   THEN [ r EXCEPT !.hdrSeen = TRUE, !.hdr = IF r.hdrSeen THEN @ ELSE e.md,
                                   \* the delivered header frame's metadata; nothing if none was delivered, or if the
                                   \* RPC was finished locally (cancel, deadline, tunnel end) before it was processed
                                   !.hdrBad = @ \/ (r.sid \in DOMAIN ws /\
                                                 ~ \/ ws[r.sid].hdrDeliv /\ MDEq(e.md, ws[r.sid].sHdrMD)
                                                   \/ ~ws[r.sid].hdrDeliv /\ MDEq(e.md, MD0)
                                                   \/ ws[r.sid].cliEnd \notin {"", "close"} /\ MDEq(e.md, MD0)),
                                   !.hdrMismatch = @ \/ (r.hdrSeen /\ ~MDEq(r.hdr, e.md)),
                                   !.hasHdrT = "hdrT" \in DOMAIN e,
                                   !.hdrT = IF "hdrT" \in DOMAIN e THEN e.hdrT ELSE MD0,
                                   !.hdrTBad = @ \/ ("hdrT" \in DOMAIN e /\ ~MDEq(e.hdrT, e.md)) ]
                   ELSE r
              [] e.op = "trailer" -> r
              [] OTHER -> r
          ELSE
            CASE e.op = "recv" ->
                   IF e.cls = "ok"
                   THEN [ r EXCEPT !.gotS = Append(@, IdOf(e.m)), !.intactS = @ /\ e.m.intact ]
                   ELSE IF e.cls = "eof"
                   THEN [ r EXCEPT !.sEOF = TRUE, !.okCatEOF = IF r.sEOF THEN @ ELSE r.okC ]
                   ELSE r
              [] e.op = "send" ->
                   LET second == r.shape \in {"unary", "cstream"} /\ e.idx >= 1 IN
                   IF e.cls = "ok"
                   THEN [ r EXCEPT !.okS = @ + 1, !.secondSendS = IF second THEN "accepted" ELSE @ ]
                   ELSE [ r EXCEPT !.errS = @ + 1, !.secondSendS = IF second /\ @ = "none" THEN "refused" ELSE @ ]
              [] e.op \in {"sethdr", "sendhdr"} ->
                   IF e.cls = "ok" THEN [ r EXCEPT !.hHdr = MDJoin(@, r.hHdrPend), !.hHdrBusy = FALSE ]
                   ELSE [ r EXCEPT !.hHdrBusy = FALSE ]
              [] OTHER -> r)
  /\ QOff
  /\ UNCHANGED <<cfg, ws, tun, bad, now, meta>>

OInvoked(e) ==
  /\ LET r == RPof(e.rpc)
     IN rp' = SetRP(e.rpc, [ r EXCEPT !.inv = @ + 1, !.invShape = e.shape, !.invMethod = e.method, !.invMD = e.md,
                                     !.idS = "ival" \in DOMAIN e, !.tmdS = IF "tmd" \in DOMAIN e THEN e.tmd ELSE MD0,
                                     !.peerS = IF "peer" \in DOMAIN e THEN e.peer ELSE "",
                                     !.ivalS = IF "ival" \in DOMAIN e THEN e.ival ELSE "" ])
  /\ QOff
  \* the harness tags every request's metadata; a handler invoked by the real client whose request
  \* metadata carries no tag (numbered 1000+ by the harness) did not receive the caller's metadata
  /\ bad' = bad \cup Flag(RealCli /\ RealSrv /\ e.rpc >= 1000, "invoked.request-metadata-lost", 0)
  /\ UNCHANGED <<cfg, ws, tun, now, meta>>

---------------------------------------------------------------------------
(* Driver actions and tunnel-level observations.                           *)

AddCause(t, c) == [ t EXCEPT !.causes = @ \cup {c}, !.firstCause = IF @ = "" THEN c ELSE @ ]

\* every RPC in flight at the caller gets a local terminal cause
AllLocal(cause) ==
  [ s \in DOMAIN ws |-> [ ws[s] EXCEPT !.cliEnd = CliEnd(ws[s], cause) ] ]

SidOfRpc(r) == IF \E s \in DOMAIN ws : ws[s].rpc = r /\ ws[s].news > 0
               THEN CHOOSE s \in DOMAIN ws : ws[s].rpc = r /\ ws[s].news > 0
               ELSE 0

OCtl(e) ==
  /\ CASE e.what = "cancel" ->
            LET s == SidOfRpc(e.rpc) IN
            /\ rp' = SetRP(e.rpc, [ RPof(e.rpc) EXCEPT !.cancelled = TRUE, !.localCause = @ \cup {1} ])
            /\ ws' = IF s # 0 THEN SetWS(s, [ ws[s] EXCEPT !.cliEnd = CliEnd(ws[s], "cancel") ]) ELSE ws
            /\ UNCHANGED <<tun, now>>
       [] e.what = "advance" ->
            LET t == now + e.ms
                expired(r) == rp[r].cstart /\ rp[r].timeout > 0 /\ rp[r].t0 + rp[r].timeout <= t
            IN
            /\ now' = t
            /\ rp' = [ r \in DOMAIN rp |-> IF expired(r) THEN [ rp[r] EXCEPT !.localCause = @ \cup {4} ] ELSE rp[r] ]
            /\ ws' = [ s \in DOMAIN ws |->
                         IF ws[s].rpc \in DOMAIN rp /\ expired(ws[s].rpc)
                         THEN [ ws[s] EXCEPT !.cliEnd = CliEnd(ws[s], "deadline") ] ELSE ws[s] ]
            /\ UNCHANGED tun
       [] e.what \in {"close", "ctxcancel"} ->
            /\ tun' = AddCause(tun, e.what)
            /\ ws' = AllLocal("tunnel")
            /\ UNCHANGED <<rp, now>>
       [] e.what = "shutdown" ->
            /\ tun' = [ tun EXCEPT !.shutdown = TRUE ]
            /\ UNCHANGED <<rp, ws, now>>
       [] e.what = "gstop.ret" ->
            /\ tun' = [ tun EXCEPT !.gstopRet = TRUE ]
            /\ UNCHANGED <<rp, ws, now>>
       [] e.what = "stop" ->
            /\ tun' = [ AddCause(tun, "stop") EXCEPT !.stopCalled = TRUE ]
            /\ UNCHANGED <<rp, ws, now>>
       [] e.what = "stop.ret" ->
            /\ tun' = [ tun EXCEPT !.stopRet = TRUE ]
            /\ UNCHANGED <<rp, ws, now>>
       [] OTHER -> UNCHANGED <<rp, ws, tun, now>>
  /\ QOff
  /\ UNCHANGED <<cfg, bad, meta>>

OCar(e) ==
  /\ tun' = IF e.what \in {"fail", "ctxdone", "srvgone"} THEN AddCause(tun, e.what)
            \* a raw (driver-played) network end finishing its side
            ELSE IF \/ e.what = "closeSend" /\ ((cfg.dir = "fwd" /\ ~RealCli) \/ (cfg.dir = "rev" /\ ~RealSrv))
                    \/ e.what = "handlerReturn" /\ ((cfg.dir = "fwd" /\ ~RealSrv) \/ (cfg.dir = "rev" /\ ~RealCli))
                 THEN AddCause(tun, "peerend")
            ELSE IF e.what = "marshalfail" THEN [ tun EXCEPT !.marshalFail = TRUE ]
            ELSE IF e.what = "sendfailed" THEN [ tun EXCEPT !.sendFailed = TRUE ]
            ELSE tun
  \* (a single Send that the transport refuses - "sendfailed" - may end any RPC in flight with an error)
  /\ ws' = IF e.what \in {"fail", "ctxdone", "marshalfail", "sendfailed"} THEN AllLocal("tunnel") ELSE ws
  /\ QOff
  \* the library broke the usage contract of the gRPC stream that carries the tunnel
  /\ bad' = bad \cup Flag(e.what = "contract", "carrier.contract", 0)
  /\ UNCHANGED <<cfg, rp, now, meta>>

OTun(e) ==
  /\ tun' = CASE e.what = "started"   -> [ tun EXCEPT !.started = TRUE, !.chid = IF "ch" \in DOMAIN e THEN e.ch ELSE @ ]
              [] e.what = "startfail" -> [ tun EXCEPT !.startFail = TRUE, !.chErr = e.cls ]
              [] e.what = "chdone"    -> [ tun EXCEPT !.chdone = TRUE, !.chErr = e.cls, !.chEarly = ~tun.closeMarked ]
              [] e.what = "serveret"  -> [ tun EXCEPT !.serveRet = TRUE, !.serveCls = e.cls ]
              [] OTHER -> tun
  /\ ws' = IF e.what = "chdone" THEN AllLocal("tunnel") ELSE ws
  /\ QOff
  /\ UNCHANGED <<cfg, rp, bad, now, meta>>

OOpen(e) ==
  /\ cfg' = e
  /\ tun' = [ tun EXCEPT !.opened = TRUE ]
  /\ QOff
  /\ UNCHANGED <<ws, rp, bad, now, meta>>

OQuiesce(e) ==
  /\ q' = [ at |-> TRUE, final |-> e.final, blocked |-> e.blocked, h |-> e.h, parked |-> e.parked,
            ctab |-> e.ctab, stab |-> e.stab, nsrv |-> e.nsrv, qc2s |-> e.qc2s, qs2c |-> e.qs2c,
            g |-> e.g, chdone |-> e.chdone ]
  /\ tun' = LET t1 == IF tun.baseG = -1 /\ e.g >= 0 /\ tun.started /\ DOMAIN rp = {} /\ ~e.chdone
                       THEN [ tun EXCEPT !.baseG = e.g ] ELSE tun
            IN IF "cherr" \in DOMAIN e /\ t1.chSettled = "none" THEN [ t1 EXCEPT !.chSettled = e.cherr ] ELSE t1
  /\ UNCHANGED <<cfg, ws, rp, bad, now, meta>>

OReset ==
  /\ cfg' = Cfg0
  /\ ws' = [x \in {} |-> WS0] /\ rp' = [x \in {} |-> RP0] /\ tun' = Tun0 /\ bad' = {} /\ now' = 0
  /\ meta' = [done |-> <<>>] /\ q' = Q0

OScenario(e) ==
  /\ meta' = IF "done" \in DOMAIN e.meta THEN [done |-> e.meta.done] ELSE [done |-> <<>>]
  /\ QOff
  /\ UNCHANGED <<cfg, ws, rp, tun, bad, now>>

OStep(e) ==
  /\ tun' = IF e.do = "teardown"
            THEN [ AddCause(tun, "teardown") EXCEPT !.teardown = TRUE, !.lastBlocked = q.blocked,
                     !.doneAtTeardown = tun.causes = {} /\ ~tun.marshalFail ]
            ELSE tun
  /\ ws' = IF e.do = "teardown" THEN AllLocal("tunnel") ELSE ws
  /\ QOff
  /\ UNCHANGED <<cfg, rp, bad, now, meta>>

OSkip ==
  /\ QOff
  /\ UNCHANGED <<cfg, ws, rp, tun, bad, now, meta>>

\* The harness can hold the tunnel client's receive loop between taking a frame off the carrier and handing it
\* to its stream (yield point cli.frame.dispatch).  A close frame held there has not ended the RPC yet: whatever
\* ends it meanwhile (a cancel) comes first.
OPark(e) ==
  /\ ws' = IF e.point = "cli.frame.dispatch" /\ e.sid \in DOMAIN ws /\ ws[e.sid].closeDeliv /\ ws[e.sid].cliEnd = "close"
            THEN [ ws EXCEPT ![e.sid].cliEnd = "", ![e.sid].closeHeld = TRUE ] ELSE ws
  /\ QOff
  /\ UNCHANGED <<cfg, rp, tun, bad, now, meta>>
OUnpark(e) ==
  /\ ws' = IF e.point = "cli.frame.dispatch" /\ e.sid \in DOMAIN ws /\ ws[e.sid].closeHeld
            THEN [ ws EXCEPT ![e.sid].cliEnd = CliEnd(ws[e.sid], "close"), ![e.sid].closeHeld = FALSE ] ELSE ws
  /\ QOff
  /\ UNCHANGED <<cfg, rp, tun, bad, now, meta>>

OHeap(e) ==
  /\ tun' = [ tun EXCEPT !.heapBase = IF @ = -1 THEN e.mb ELSE @, !.heapMax = IF e.mb > @ THEN e.mb ELSE @ ]
  /\ QOff
  /\ UNCHANGED <<cfg, ws, rp, bad, now, meta>>

\* the channel recorded its end (its error, or none): Err() is settled from here on
OCloseMarked ==
  /\ tun' = [ tun EXCEPT !.closeMarked = TRUE ]
  /\ QOff
  /\ UNCHANGED <<cfg, ws, rp, bad, now, meta>>

\* registry callbacks of a reverse tunnel: the channel becomes known
OReg(e) ==
  /\ tun' = IF e.what = "open" /\ tun.chid = 0 THEN [ tun EXCEPT !.chid = e.ch ] ELSE tun
  /\ QOff
  /\ UNCHANGED <<cfg, ws, rp, bad, now, meta>>

\* the receive loop of the receiving end of direction e.dir asks for the next frame: it has
\* finished processing frame number e.n
OIdle(e) ==
  /\ tun' = IF e.dir = "c2s" THEN [tun EXCEPT !.idleC2S = e.n] ELSE [tun EXCEPT !.idleS2C = e.n]
  /\ QOff
  /\ UNCHANGED <<cfg, ws, rp, bad, now, meta>>

EventKinds == {"wire.send", "wire.recv", "op.start", "op.ret", "invoked", "ctl", "car", "tun", "open", "q",
               "reset", "step", "scenario"}

\* the transition for an arbitrary event record
OEvent(e) ==
  CASE e.ev = "wire.send" -> OWireSend(e)
    [] e.ev = "wire.recv" -> OWireRecv(e)
    [] e.ev = "op.start"  -> OOpStart(e)
    [] e.ev = "op.ret"    -> OOpRet(e)
    [] e.ev = "invoked"   -> OInvoked(e)
    [] e.ev = "ctl"       -> OCtl(e)
    [] e.ev = "car"       -> OCar(e)
    [] e.ev = "tun"       -> OTun(e)
    [] e.ev = "open"      -> OOpen(e)
    [] e.ev = "q"         -> OQuiesce(e)
    [] e.ev = "reset"     -> OReset
    [] e.ev = "step"      -> OStep(e)
    [] e.ev = "scenario"  -> OScenario(e)
    [] e.ev = "wire.idle" -> OIdle(e)
    [] e.ev = "reg"       -> OReg(e)
    [] e.ev = "hook" /\ e.point = "cli.close.marked" -> OCloseMarked
    [] e.ev = "heap"      -> OHeap(e)
    [] e.ev = "park"      -> OPark(e)
    [] e.ev = "unpark"    -> OUnpark(e)
    [] OTHER              -> OSkip

---------------------------------------------------------------------------
(* The property formulas.  Each is a state predicate over the observation  *)
(* state; the name prefix is the property id.                              *)

ORpcs == DOMAIN rp
OSids == DOMAIN ws

IsPfx(a, b) == Len(a) <= Len(b) /\ \A i \in 1..Len(a) : a[i] = b[i]

\* ---- C01 -----------------------------------------------------------------
\* (what a raw peer "submitted" is not known to the monitor: these apply to real senders)
C01_SrvPrefix == RealCli => \A r \in ORpcs : IsPfx(rp[r].gotS, rp[r].sentC)
C01_CliPrefix == RealSrv => \A r \in ORpcs : IsPfx(rp[r].gotC, rp[r].sentS \o
                    (IF rp[r].hResp >= 0 THEN << <<r, "s", Len(rp[r].sentS), rp[r].hResp>> >> ELSE <<>>))
C01_Intact    == \A r \in ORpcs : rp[r].intactS /\ rp[r].intactC
\* handler saw end-of-stream => it obtained every message whose send had succeeded
C01_CompleteAtEOF == RealCli => \A r \in ORpcs : rp[r].sEOF => Len(rp[r].gotS) >= rp[r].okCatEOF
\* caller saw OK => it obtained every message the handler sent
C01_CompleteAtOK  == RealSrv => \A r \in ORpcs : rp[r].cRes.cls = "eof" =>
                        Len(rp[r].gotC) = rp[r].okS + (IF rp[r].hResp >= 0 THEN 1 ELSE 0)

\* ---- C13 (wire conformance) ------------------------------------------------
BadHas(c) == \E x \in bad : x[1] = c
\* settings: only when negotiated, then as the first server frame, with stream id -1, once
C13_SettingsFirst == ~BadHas("settings.not-first") /\ ~BadHas("settings.sid") /\ ~BadHas("legacy.settings")
                     /\ (RealSrv => tun.settingsSent <= 1)
C13_Framing == /\ ~BadHas("framing.envelope-inside-message") /\ ~BadHas("framing.len>size")
               /\ ~BadHas("framing.continuation-without-message") /\ ~BadHas("framing.overrun-of-size")
               /\ ~BadHas("unknown-frame")
C13_HeadersOnceBeforeData == ~BadHas("hdr.twice") /\ ~BadHas("hdr.after-message") /\ ~BadHas("msg.before-hdr")
C13_HalfCloseOnce == ~BadHas("half.twice")
C13_CancelOnce == ~BadHas("cancel.twice")
C13_NoDataAfterHalfClose == ~BadHas("data-after-half")
C13_AtMostOneClose == ~BadHas("close.twice") /\ ~BadHas("close.unknown-stream")
C13_CloseLastIfHandlerEnded == ~BadHas("after-close")

\* ---- C06 -------------------------------------------------------------------
C06_ChunkMax == ~BadHas("chunkmax")
\* un-credited bytes never exceed the advertised window (credit counts once it
\* has been delivered to the sender's endpoint)
C06_SenderWithinWindow ==
  \A s \in OSids :
     /\ (RealCli /\ ws[s].rev = 1) => ws[s].cBytes - ws[s].sWuD <= tun.winC2S
     /\ (RealSrv /\ ws[s].rev = 1) => ws[s].sBytes - ws[s].cWuD <= ws[s].win
\* credit granted never exceeds what was delivered, nor what the application
\* can have consumed: it asked for at most recv (+1 look-ahead) messages
Consumable(env, k) == SumSeq(Prefix(env, k))
C06_CreditBounded ==
  \A s \in OSids :
     LET r == ws[s].rpc
         R == RPof(r)
     IN /\ RealSrv => /\ ws[s].sWuSum <= ws[s].cDataSum
                      /\ (r # 0 /\ RealCli) => ws[s].sWuSum <= Consumable(ws[s].cEnv, R.recvS + 1)
        /\ RealCli => /\ ws[s].cWuSum <= ws[s].sDataSum
                      /\ (r # 0 /\ RealSrv) => ws[s].cWuSum <= Consumable(ws[s].sEnv, R.recvC + 1)

\* ---- C05 -------------------------------------------------------------------
\* every window update is exactly the length of a data frame the receiver took,
\* in order
C05_CreditExact == ~BadHas("credit.inexact")

BlockedOps == { <<q.blocked[i][1], q.blocked[i][2], q.blocked[i][4]>> : i \in 1..Len(q.blocked) }

\* at a quiescent point a blocked send means the window is exhausted (or, with
\* a bounded carrier, that the carrier is full)
C05_BlockedOnlyWhenFull ==
  (q.at /\ tun.causes = {} /\ ~tun.marshalFail /\ q.parked = <<>>) => \A b \in BlockedOps :
     (b[3] = "send" /\ b[2] \in ORpcs /\ rp[b[2]].sid \in OSids) =>
        LET s == rp[b[2]].sid IN
        IF b[1] = "c"
        THEN \/ ws[s].rev = 1 /\ ws[s].cBytes - ws[s].sWuD = tun.winC2S
             \/ cfg.cap > 0 /\ q.qc2s >= cfg.cap
        ELSE \/ ws[s].rev = 1 /\ ws[s].sBytes - ws[s].cWuD = ws[s].win
             \/ cfg.cap > 0 /\ q.qs2c >= cfg.cap

\* once the application has read everything and nothing is in flight, the sender's whole window
\* is available again: every data byte has been credited
C05_WindowRestored ==
  (q.at /\ q.parked = <<>> /\ q.qc2s = 0 /\ q.qs2c = 0 /\ q.blocked = <<>> /\ RealCli /\ RealSrv /\ tun.causes = {} /\ ~tun.marshalFail) =>
     \A s \in OSids : (ws[s].rev = 1 /\ ws[s].rpc \in ORpcs /\ ws[s].cliEnd = "" /\ ws[s].sClose = 0 /\ ~ws[s].cancelDeliv) =>
        LET R == rp[ws[s].rpc] IN
        /\ (~ws[s].halfDeliv /\ Len(R.gotS) = Len(R.sentC) /\ R.errC = 0) => ws[s].cBytes = ws[s].sWuD
        /\ (Len(R.gotC) = Len(R.sentS) /\ R.errS = 0) => ws[s].sBytes = ws[s].cWuD

\* ---- C08 -------------------------------------------------------------------
C08_IdsIncreasing == ~BadHas("ids.increasing") /\ ~BadHas("ids.dup")
C08_NewFirst == ~BadHas("newfirst")
C08_AtMostOneInvocation == \A r \in ORpcs : rp[r].inv <= 1
C08_RightHandler ==
  \A r \in ORpcs : (rp[r].inv > 0 /\ rp[r].cstart) => rp[r].invShape = rp[r].shape

\* the tunnel ends only for a tunnel-level cause
TunnelCause == tun.causes # {}

\* ---- C11 -------------------------------------------------------------------
C11_Revision == ~BadHas("neg.rev")
C11_LegacyClean == ~BadHas("legacy.wu") /\ ~BadHas("legacy.settings")

\* settings are sent exactly when the tunnel client advertised negotiation; Start/Serve complete
\* (or fail) instead of hanging once the first server frame (or the peer's end) was delivered
C11_SettingsIff ==
  (q.at /\ RealSrv /\ tun.opened /\ q.parked = <<>> /\ tun.causes = {}) =>
     tun.settingsSent = (IF cfg.rawCli \notin {"", "neg"} THEN 0 ELSE 1)
C11_StartCompletes ==
  (q.at /\ RealCli /\ tun.opened /\ q.parked = <<>> /\ cfg.dir = "fwd") =>
     /\ (cfg.rawSrv = "legacy" \/ tun.s2cDeliv >= 1 \/ tun.causes # {}) => (tun.started \/ tun.startFail)
     \* (Start may also hand out a channel that is already failed)
     /\ (tun.started /\ ~RealSrv /\ tun.cliMustFailStart) => (q.chdone /\ tun.chErr = "err")
\* window updates are used exactly when flow control is in use on the stream
\* a well-formed settings frame (stream id -1, a revision list that is empty - meaning revision
\* zero - or names a revision the client supports) never makes the client give up
C11_WellFormedSettingsAccepted ==
  (RealCli /\ ~RealSrv /\ (tun.startFail \/ tun.chdone) /\ tun.s2cDeliv = 1 /\ ~TunnelCause) => tun.cliMustFailStart
\* the peer ended the stream before any settings frame arrived: the channel is failed, not cleanly closed
C11_MissingSettingsFails ==
  (q.at /\ RealCli /\ cfg.rawSrv = "neg" /\ tun.s2cDeliv = 0 /\ "peerend" \in tun.causes /\ cfg.dir = "fwd") =>
     (tun.startFail \/ (tun.chdone /\ tun.chErr = "err"))
C11_FlowControlIff == \A s \in OSids : ws[s].rev = 0 => ((RealCli => ws[s].cWuSum = 0) /\ (RealSrv => ws[s].sWuSum = 0))

\* ---- C03 / C04 ------------------------------------------------------------------
C03_TunnelSurvives ==
  (RealCli /\ RealSrv) => ((tun.chdone \/ tun.serveRet \/ tun.startFail) => TunnelCause)

\* ---- C02 -------------------------------------------------------------------
ResMatchesClose(res, c) ==
  \/ c.code = 0 /\ res.cls = "eof"
  \/ c.code # 0 /\ res.cls = "err" /\ res.code = c.code /\ res.msg = c.msg /\ res.det = c.det

C02_ResultOnce == \A r \in ORpcs : ~rp[r].cResMismatch

\* the close frame carries what the handler returned (status and trailers), or
\* what a server-local cause explains (cancel delivered, rejection)
C02_CloseCarriesHandlerStatus ==
  \A s \in OSids : (RealSrv /\ RealCli /\ ws[s].sClose >= 1 /\ ws[s].rpc \in ORpcs /\ ~tun.sendFailed) =>
     LET c == ws[s].close
         R == rp[ws[s].rpc]
     IN \/ /\ R.hRetStarted /\ c.code = R.hRet.code /\ c.msg = R.hRet.msg /\ c.det = R.hRet.det
           /\ MDEq(c.md, R.hRet.md)
        \/ ws[s].cancelDeliv   \* the caller has finished already and discards this frame
        \/ R.inv = 0 /\ c.code \in {3, 12, 14}
        \/ R.hRetStarted /\ R.hRet.code = 0 /\ R.shape = "unary" /\ c.code \in {1, 4}
        \/ tun.causes # {}

\* a caller that finished because the close frame arrived sees exactly its status
C02_StatusExact ==
  \A r \in ORpcs : (RealSrv /\ rp[r].cRes.cls # "none" /\ rp[r].sid \in OSids /\ ~cfg.auto) =>
     (ws[rp[r].sid].cliEnd = "close" => ResMatchesClose(rp[r].cRes, ws[rp[r].sid].close))

\* ... and its trailers, as soon as the terminal result has been returned
C02_TrailersAtTerminal ==
  \A r \in ORpcs : (RealSrv /\ rp[r].trlSeen /\ rp[r].sid \in OSids /\ ~cfg.auto /\ ws[rp[r].sid].cliEnd = "close") =>
     /\ MDEq(rp[r].trl, ws[rp[r].sid].close.md)
     /\ rp[r].hasTrlT => MDEq(rp[r].trlT, ws[rp[r].sid].close.md)

\* the header frame carries exactly what the handler set before it was sent;
\* the caller reads exactly the delivered header frame
C02_HeadersExact ==
  /\ \A s \in OSids : (RealSrv /\ ws[s].sHdr >= 1 /\ ws[s].rpc \in ORpcs /\ ~rp[ws[s].rpc].hHdrBusy) =>
        MDEq(ws[s].sHdrMD, rp[ws[s].rpc].hHdr)
  /\ \A r \in ORpcs : ~rp[r].hdrBad /\ ~rp[r].hdrMismatch /\ ~rp[r].hdrTBad
C02_HeadersByFirstMsg ==
  /\ \A r \in ORpcs : ~rp[r].hdrLate
  /\ q.at => \A b \in BlockedOps : (b[3] = "header" /\ b[2] \in ORpcs /\ rp[b[2]].sid \in OSids) => ~ws[rp[b[2]].sid].hdrDeliv
\* every metadata value the scenarios use is legal gRPC metadata (binary values
\* under "-bin" keys included): none may be refused as unencodable
C02_EncodableMetadata == ~tun.marshalFail
C02_RequestMD == /\ \A r \in ORpcs : (rp[r].inv > 0 /\ rp[r].cstart /\ RealCli) => MDEq(rp[r].invMD, rp[r].mdSent)
                 /\ ~BadHas("invoked.request-metadata-lost")

\* ---- C07 -------------------------------------------------------------------
\* a terminal result is the handler's (via the close frame) or one that a local
\* cause explains; never anything else
LocalOK(r, res) ==
  \/ 1 \in rp[r].localCause /\ res.cls = "err" /\ res.code = 1
  \/ 4 \in rp[r].localCause /\ res.cls = "err" /\ res.code = 4
  \/ 5 \in rp[r].localCause /\ res.cls = "err"
  \/ rp[r].sid \in OSids /\ ws[rp[r].sid].cliEnd = "tunnel" /\ res.cls = "err"
  \/ (tun.causes # {} \/ tun.marshalFail \/ tun.chdone \/ tun.cliMustDie) /\ res.cls = "err"
C07_OneLegalOutcome ==
  \A r \in ORpcs : (RealSrv /\ rp[r].cRes.cls # "none" /\ ~(tun.sendFailed /\ rp[r].cRes.cls = "err")) =>
     \/ rp[r].sid \in OSids /\ ws[rp[r].sid].closeDeliv /\ ResMatchesClose(rp[r].cRes, ws[rp[r].sid].close)
     \/ LocalOK(r, rp[r].cRes)
\* never a mixture: the trailers the caller reads with its terminal result belong to that outcome - the close
\* frame's when the result is the close frame's, none when a local cause ended the RPC
C07_NoMixture ==
  \A r \in ORpcs : (RealSrv /\ RealCli /\ rp[r].trlSeen /\ rp[r].cRes.cls # "none" /\ rp[r].sid \in OSids /\ ~cfg.auto /\ ~tun.sendFailed) =>
     \/ ws[rp[r].sid].closeDeliv /\ ResMatchesClose(rp[r].cRes, ws[rp[r].sid].close) /\ MDEq(rp[r].trl, ws[rp[r].sid].close.md)
     \/ MDEq(rp[r].trl, MD0) /\ LocalOK(r, rp[r].cRes)
\* cancelled / expired at the caller: no caller op of that RPC stays blocked
\* (with a bounded carrier - C05's domain, not C07's - an op can be blocked inside the transport's own
\* Send, which no RPC context can interrupt: these two formulas are judged on unbounded carriers)
Unbounded == cfg.cap = 0
C07_CallerEndsAlone ==
  (q.at /\ q.parked = <<>> /\ Unbounded) => \A b \in BlockedOps : (b[1] = "c" /\ b[2] \in ORpcs) => rp[b[2]].localCause = {}
\* once the cancel notice was delivered the handler's context is done and none
\* of its ops stays blocked
HandlerCtxDone(r) == \E i \in 1..Len(q.h) : q.h[i][1] = r /\ q.h[i][2] = 1
HandlerLive(r) == \E i \in 1..Len(q.h) : q.h[i][1] = r
C07_HandlerReleased ==
  (q.at /\ q.parked = <<>> /\ Unbounded) => \A s \in OSids : (ws[s].cancelDeliv /\ ws[s].rpc # 0) =>
     /\ HandlerLive(ws[s].rpc) => HandlerCtxDone(ws[s].rpc)
     /\ \A b \in BlockedOps : ~(b[1] = "s" /\ b[2] = ws[s].rpc)

\* ---- C04 -------------------------------------------------------------------
RealCause == tun.causes \cap {"close", "ctxcancel", "fail", "ctxdone", "stop", "teardown", "srvgone", "peerend"} # {}
QuietWire == q.qc2s = 0 /\ q.qs2c = 0
\* (a goroutine the harness holds at a gate may itself hold the lock the call's completion needs:
\* judged at the quiescent points where nothing is held)
C04_CallsEnd == (q.at /\ q.chdone /\ q.parked = <<>>) => \A b \in BlockedOps : b[1] # "c"
C04_HandlersReleased ==
  (q.at /\ tun.serveRet /\ q.parked = <<>>) =>
     /\ \A i \in 1..Len(q.h) : q.h[i][2] = 1
     /\ \A b \in BlockedOps : b[1] # "s"
C04_ClientObserves == (q.at /\ FCExpected /\ RealCause /\ QuietWire /\ tun.opened /\ RealCli /\ q.parked = <<>>) => (q.chdone \/ tun.startFail)
C04_ServerObserves == (q.at /\ FCExpected /\ RealCause /\ QuietWire /\ tun.opened /\ RealSrv /\ q.parked = <<>>) => tun.serveRet
\* Err() is nil after a clean close and the cause otherwise: judged on what Err() returns once the channel has
\* settled (read at the first quiescent point after Done())
C04_ErrNilIffClean ==
  (tun.chSettled # "none" /\ tun.firstCause # "" /\ RealSrv) => ((tun.chSettled = "ok") <=> (tun.firstCause \in {"close", "stop"}))
\* ... and it says so from the moment Done() fires (finding D14: it can still say "context canceled" for a moment)
C04_ErrStableAtDone ==
  (tun.chdone /\ tun.chSettled # "none" /\ tun.chErr \in {"ok", "err"}) => tun.chErr = tun.chSettled
C04_FailFast == \A r \in ORpcs : ~rp[r].failFastBad

\* ---- C03 -------------------------------------------------------------------
\* ORpcs the generator expects to complete (their peers keep reading, no fault of
\* their own, no tunnel-level cause) have completed when the run is drained
DoneSet == { meta.done[i] : i \in 1..Len(meta.done) }
C03_BystandersComplete ==
  (tun.teardown /\ tun.doneAtTeardown) =>
     \A r \in DoneSet :
        /\ \A i \in 1..Len(tun.lastBlocked) : tun.lastBlocked[i][2] # r
        /\ r \in ORpcs /\ rp[r].cRes.cls # "none"

\* ---- C14 -------------------------------------------------------------------
CliLive == { s \in OSids : ws[s].news > 0 /\ ws[s].cliEnd = "" }
SrvLive == { r \in ORpcs : rp[r].inv > 0 /\ ~rp[r].hRetStarted /\ ~(rp[r].sid \in OSids /\ (ws[rp[r].sid].cancelDeliv \/ ws[rp[r].sid].sViolD)) }
SrvMaybe == { r \in ORpcs : rp[r].inv > 0 /\ rp[r].hRetStarted /\ rp[r].shape = "unary"
                           /\ rp[r].sid \in OSids /\ ws[rp[r].sid].sClose = 0 /\ ~ws[rp[r].sid].cancelDeliv }
\* (with revision zero the receive loops can be blocked handing a frame to a consumer that does
\*  not read - head-of-line blocking by design - which delays every clean-up behind it; there the
\*  tables are only required to be empty once the tunnel is gone, C14_NothingAfterTunnel)
C14_ClientTableExact ==
  (q.at /\ q.ctab >= 0 /\ q.parked = <<>> /\ RealSrv /\ cfg.cap = 0 /\ FCExpected /\ ~tun.sendFailed) =>
     q.ctab = (IF q.chdone THEN 0 ELSE Cardinality(CliLive))
C14_ServerTableExact ==
  (q.at /\ q.parked = <<>> /\ RealCli /\ cfg.cap = 0 /\ FCExpected) =>
     IF q.nsrv = 0 THEN q.stab = 0
     ELSE Cardinality(SrvLive) <= q.stab /\ q.stab <= Cardinality(SrvLive) + Cardinality(SrvMaybe)
\* whenever no RPC is in flight on either end, no more library goroutines exist than right
\* after the tunnel was opened (whatever happened in between)
C14_GoroutinesBaseline ==
  (q.at /\ q.g >= 0 /\ tun.baseG >= 0 /\ q.ctab <= 0 /\ q.stab = 0 /\ q.h = <<>> /\ q.blocked = <<>>
        /\ q.parked = <<>> /\ FCExpected) => q.g <= tun.baseG
\* once both ends of the tunnel are gone and no handler runs and no call is blocked, no goroutine
\* started on the tunnel's behalf remains (long before the harness tears anything down)
C14_NothingAfterBothEnds ==
  (q.at /\ q.g >= 0 /\ q.chdone /\ q.nsrv = 0 /\ tun.serveRet /\ q.h = <<>> /\ q.blocked = <<>> /\ q.parked = <<>>
        /\ QuietWire /\ FCExpected) => q.g = 0
C14_NothingAfterTunnel ==
  (q.at /\ q.final) => q.g = 0 /\ q.ctab <= 0 /\ q.stab = 0 /\ q.nsrv = 0

\* ---- C10 -------------------------------------------------------------------
C10_RefusedAfterShutdown ==
  \A s \in OSids : (ws[s].newAfterShutdown /\ RealSrv) =>
     /\ ws[s].rpc \in ORpcs => rp[ws[s].rpc].inv = 0
     /\ ws[s].sClose >= 1 => ws[s].close.code = 14
C10_GracefulStopReturns ==
  (q.at /\ tun.shutdown /\ cfg.dir = "rev" /\ q.h = <<>> /\ q.stab = 0 /\ QuietWire /\ q.blocked = <<>> /\ RealSrv)
     => tun.gstopRet
C10_StopMeansStopped ==
  (q.at /\ tun.stopRet) => (tun.serveRet /\ \A i \in 1..Len(q.h) : q.h[i][2] = 1)

\* ---- C16 -------------------------------------------------------------------
C16_SecondSendRefused ==
  /\ \A r \in ORpcs : rp[r].secondSendC # "accepted" /\ rp[r].secondSendS # "accepted"
  /\ \A s \in OSids : (ws[s].rpc \in ORpcs) =>
        /\ (RealCli /\ rp[ws[s].rpc].shape \in {"unary", "sstream"}) => Len(ws[s].cEnv) <= 1
        /\ (RealSrv /\ rp[ws[s].rpc].invShape \in {"unary", "cstream"}) => Len(ws[s].sEnv) <= 1
C16_OneRequestOnly == \A r \in ORpcs : rp[r].invShape \in {"unary", "sstream"} => Len(rp[r].gotS) <= 1
\* a method with a non-streaming request reads ahead until the half-close: whatever malformed or surplus
\* request data was delivered before it, the handler never obtains a request (InvalidArgument instead)
C16_NoRequestFromMalformedStream ==
  \A r \in ORpcs : (rp[r].invShape \in {"unary", "sstream"} /\ rp[r].sid \in OSids /\ ~RealCli /\ 3 \in ws[rp[r].sid].sViol)
     => Len(rp[r].gotS) = 0
C16_NoSuccessOnWrongCount ==
  \A r \in ORpcs : (rp[r].shape \in {"unary", "cstream"} /\ Len(rp[r].gotC) >= 1 /\ rp[r].sid \in OSids) =>
     LET w == ws[rp[r].sid] IN w.sMsgsD = 1 /\ w.closeDeliv /\ w.close.code = 0

\* ---- C09 -------------------------------------------------------------------
\* tunnel-level: the server ends the tunnel exactly for a tunnel-level violation (or a
\* tunnel-level cause), and has done so by the next quiescent point
C09_SrvTunnelLevel ==
  RealSrv => /\ (tun.serveRet /\ ~RealCli) => (tun.srvMustDie \/ TunnelCause)
             /\ (q.at /\ q.parked = <<>> /\ tun.srvMustDie) => tun.serveRet
C09_CliTunnelLevel ==
  RealCli => /\ ((tun.chdone \/ tun.startFail) /\ ~RealSrv) => (tun.cliMustDie \/ tun.cliMustFailStart \/ TunnelCause)
             /\ (q.at /\ q.parked = <<>> /\ (tun.cliMustDie \/ tun.cliMustFailStart)) => (q.chdone \/ tun.startFail)
\* stream-level: a violation that the endpoint must notice on delivery has failed exactly that
\* stream with the documented status by the next quiescent point; a close frame for a stream
\* with violations carries a status one of them (or the handler's own return) justifies
C09_SrvStreamLevel ==
  (RealSrv /\ ~RealCli) => \A s \in OSids :
     /\ (q.at /\ q.parked = <<>> /\ ws[s].sViolNow /\ SrvAlive /\ ~tun.serveRet) => ws[s].sClose = 1
     /\ (ws[s].sViol # {} /\ ws[s].sClose >= 1 /\ ~ws[s].cancelDeliv /\ SrvAlive) =>
           \/ ws[s].close.code \in ws[s].sViol
           \/ ws[s].rpc \in ORpcs /\ rp[ws[s].rpc].hRetStarted /\ ws[s].close.code = rp[ws[s].rpc].hRet.code
C09_CliStreamLevel ==
  (RealCli /\ ~RealSrv) => \A r \in ORpcs : (rp[r].sid \in OSids /\ rp[r].cRes.cls # "none") =>
     LET w == ws[rp[r].sid] IN
     \/ w.closeDeliv /\ ResMatchesClose(rp[r].cRes, w.close)
     \/ LocalOK(r, rp[r].cRes)
     \/ w.cViol # {} /\ rp[r].cRes.cls = "err" /\ rp[r].cRes.code \in w.cViol
     \* shape enforcement: zero or several responses where exactly one is due
     \/ rp[r].shape \in {"unary", "cstream"} /\ rp[r].cRes.cls = "err" /\ rp[r].cRes.code = 13
     \/ rp[r].shape \in {"unary", "cstream"} /\ w.sMsgsD = 0 /\ w.closeDeliv /\ w.close.code = 0
          /\ (rp[r].cRes.cls = "eof" \/ (rp[r].cRes.cls = "err" /\ rp[r].cRes.code = -1))
\* a caller whose stream was hit by a violation noticed on delivery is not left blocked
\* ... nor is a caller (or handler) whose read has reached a framing violation: once such a frame was delivered,
\* a read of that stream cannot be waiting at a quiescent point - it fails with the violation (it can never be
\* waiting for "the rest" of a message that was overshot, restarted or continued without an envelope)
C09_CliReleased ==
  /\ (q.at /\ q.parked = <<>> /\ RealCli /\ ~RealSrv) => \A b \in BlockedOps :
        (b[1] = "c" /\ b[2] \in ORpcs /\ rp[b[2]].sid \in OSids) =>
           /\ ~ws[rp[b[2]].sid].cViolNow
           /\ (b[3] = "recv" /\ FCExpected) => ws[rp[b[2]].sid].cViol = {}
  /\ (q.at /\ q.parked = <<>> /\ RealSrv /\ ~RealCli /\ FCExpected) => \A b \in BlockedOps :
        (b[1] = "s" /\ b[3] = "recv" /\ b[2] \in ORpcs /\ rp[b[2]].sid \in OSids) => ws[rp[b[2]].sid].sViol = {}
\* the receive loops are never wedged: at a quiescent point they wait for the next frame or have
\* returned (flow control negotiated)
C09_NotWedged ==
  (q.at /\ q.parked = <<>> /\ FCExpected /\ cfg.cap = 0) =>
     /\ (RealSrv /\ tun.opened /\ tun.idleC2S >= 0) => (tun.idleC2S = tun.takenC2S \/ tun.serveRet)
     /\ (RealCli /\ tun.idleS2C >= 0) => (tun.idleS2C = tun.takenS2C \/ tun.chdone \/ tun.startFail \/ q.chdone)
\* nothing is buffered beyond a window per stream: what was delivered and not credited fits, or
\* the stream has been failed
\* what a peer makes an endpoint hold on to is bounded by the windows it was granted, not by numbers the
\* peer announces: the live heap of the process (measured by the scenarios that probe this) does not grow
\* by more than a few windows' worth
HeapBound == 48
C09_HeapBounded == tun.heapBase >= 0 => tun.heapMax - tun.heapBase <= HeapBound
C09_BoundedBuffer ==
  /\ C09_HeapBounded
  /\ (q.at /\ q.parked = <<>>) => \A s \in OSids :
     /\ (RealSrv /\ ~RealCli /\ ws[s].rev = 1 /\ ws[s].newDeliv /\ ~ws[s].halfDeliv /\ SrvAlive /\ ~tun.serveRet) =>
           (ws[s].cDataSum - ws[s].sWuSum <= W \/ ws[s].sClose >= 1)
     /\ (RealCli /\ ~RealSrv /\ ws[s].rev = 1 /\ ws[s].news > 0 /\ CliAlive) =>
           (ws[s].sDataSum - ws[s].cWuSum <= W \/ ws[s].cliEnd # "")

\* ---- C17 -------------------------------------------------------------------
\* the metadata that opened the tunnel: what the opener attached plus the negotiation marker
Negotiate == [k \in {"_", "grpctunnel-negotiate"} |-> IF k = "_" THEN <<>> ELSE <<"on">>]
OpeningMD == IF "tmd" \in DOMAIN cfg THEN MDJoin(cfg.tmd, Negotiate) ELSE Negotiate
BothReal == RealCli /\ RealSrv
\* every observation equals the opening metadata - also the ones made after earlier results of the
\* accessors were mutated by the application (private copies)
C17_HandlerSeesTunnelMD == BothReal => \A r \in ORpcs : (rp[r].idS => MDEq(rp[r].tmdS, OpeningMD))
C17_CallerSeesOpeningMD == BothReal => \A r \in ORpcs : (rp[r].idC => MDEq(rp[r].tmdC, OpeningMD))
C17_PrivateCopies == C17_HandlerSeesTunnelMD /\ C17_CallerSeesOpeningMD /\ C02_RequestMD
\* the handler's context derives from the tunnel-opening call's: same peer, same interceptor-set values
C17_HandlerSeesPeerAndValues ==
  BothReal => \A r \in ORpcs : (rp[r].idS =>
     (IF cfg.dir = "fwd" THEN rp[r].peerS = "10.0.0.1:1234" /\ rp[r].ivalS = "iv-server"
      ELSE rp[r].ivalS = "iv-client"))
\* the caller recovers exactly the channel that carried the RPC
C17_CallerSeesCarryingChannel ==
  BothReal => \A r \in ORpcs : /\ ((rp[r].idC /\ tun.chid # 0) => rp[r].chctx = tun.chid)
                                 /\ ((rp[r].hasChopt /\ tun.chid # 0) => rp[r].chopt = tun.chid)

\* ---- C15 ---------------------------------------------------------------------
\* the library itself uses the stream that carries the tunnel as gRPC requires (one SendMsg at a time, no
\* CloseSend while a SendMsg is in progress): reported by the carrier
C15_TransportContract == ~BadHas("carrier.contract")

\* ---- C08 (stale ids) -------------------------------------------------------
C08_StaleIdEndsTunnel == C09_SrvTunnelLevel

\* ---- C08 (completion) -----------------------------------------------------
C08_ExactlyOneWhenCompleted ==
  \A r \in ORpcs : (RealSrv /\ RealCli /\ rp[r].cRes.cls # "none" /\ rp[r].sid \in OSids /\ ws[rp[r].sid].cliEnd = "close") =>
     \/ rp[r].inv = 1
     \/ rp[r].inv = 0 /\ ws[rp[r].sid].close.code \in {3, 12, 14}

---------------------------------------------------------------------------
(* Projection of the observation state used for conformance checking at     *)
(* quiescent points: the detailed model (Tunnel.tla) and the trace reader   *)
(* drive this same automaton, so at corresponding quiescent points of a     *)
(* replayed model behaviour the two projections must be equal.  Counts and  *)
(* outcomes only (no byte sizes: the model counts in units), sequences and  *)
(* records only (so that it survives a JSON round trip).                    *)
MaxOf(S) == IF S = {} THEN 0 ELSE CHOOSE x \in S : \A y \in S : y <= x
ProjRP(r) ==
  IF r \notin DOMAIN rp THEN [r |-> 0]
  ELSE [ r |-> r, sid |-> rp[r].sid, started |-> rp[r].started, startFail |-> rp[r].startFail,
         okC |-> rp[r].okC, errC |-> rp[r].errC, gotS |-> Len(rp[r].gotS), sEOF |-> rp[r].sEOF,
         okS |-> rp[r].okS, errS |-> rp[r].errS, gotC |-> Len(rp[r].gotC),
         cls |-> rp[r].cRes.cls, code |-> rp[r].cRes.code, inv |-> rp[r].inv, cancelled |-> rp[r].cancelled,
         \* metadata: what the caller read (headers, trailers), what the handler set
         hdrSeen |-> rp[r].hdrSeen, hdr |-> rp[r].hdr, trlSeen |-> rp[r].trlSeen, trl |-> rp[r].trl,
         hHdr |-> rp[r].hHdr, hTrl |-> rp[r].hTrl ]
ProjWS(s) ==
  IF s \notin DOMAIN ws THEN [s |-> 0]
  ELSE [ s |-> s, rpc |-> ws[s].rpc, news |-> ws[s].news, cHalf |-> ws[s].cHalf, cCancel |-> ws[s].cCancel,
         sHdr |-> ws[s].sHdr, sHdrMD |-> ws[s].sHdrMD, sClose |-> ws[s].sClose, ccode |-> ws[s].close.code, cmd |-> ws[s].close.md,
         newDeliv |-> ws[s].newDeliv, halfDeliv |-> ws[s].halfDeliv, cancelDeliv |-> ws[s].cancelDeliv,
         hdrDeliv |-> ws[s].hdrDeliv, closeDeliv |-> ws[s].closeDeliv, cMsgsD |-> ws[s].cMsgsD, sMsgsD |-> ws[s].sMsgsD,
         cliEnd |-> ws[s].cliEnd ]
ObsProj == [ rp |-> [i \in 1..MaxOf(DOMAIN rp) |-> ProjRP(i)], ws |-> [i \in 1..MaxOf(DOMAIN ws) |-> ProjWS(i)],
             chdone |-> tun.chdone, serveRet |-> tun.serveRet, shutdown |-> tun.shutdown ]

---------------------------------------------------------------------------
Formulas == [
  C01_SrvPrefix |-> C01_SrvPrefix, C01_CliPrefix |-> C01_CliPrefix, C01_Intact |-> C01_Intact,
  C01_CompleteAtEOF |-> C01_CompleteAtEOF, C01_CompleteAtOK |-> C01_CompleteAtOK,
  C13_SettingsFirst |-> C13_SettingsFirst, C13_Framing |-> C13_Framing,
  C13_HeadersOnceBeforeData |-> C13_HeadersOnceBeforeData, C13_HalfCloseOnce |-> C13_HalfCloseOnce,
  C13_CancelOnce |-> C13_CancelOnce, C13_NoDataAfterHalfClose |-> C13_NoDataAfterHalfClose,
  C13_AtMostOneClose |-> C13_AtMostOneClose, C13_CloseLastIfHandlerEnded |-> C13_CloseLastIfHandlerEnded,
  C06_ChunkMax |-> C06_ChunkMax, C06_SenderWithinWindow |-> C06_SenderWithinWindow,
  C06_CreditBounded |-> C06_CreditBounded,
  C05_CreditExact |-> C05_CreditExact, C05_BlockedOnlyWhenFull |-> C05_BlockedOnlyWhenFull,
  C05_WindowRestored |-> C05_WindowRestored,
  C15_TransportContract |-> C15_TransportContract,
  C08_IdsIncreasing |-> C08_IdsIncreasing, C08_NewFirst |-> C08_NewFirst,
  C08_AtMostOneInvocation |-> C08_AtMostOneInvocation, C08_RightHandler |-> C08_RightHandler,
  C11_Revision |-> C11_Revision, C11_LegacyClean |-> C11_LegacyClean, C11_SettingsIff |-> C11_SettingsIff,
  C11_StartCompletes |-> C11_StartCompletes, C11_MissingSettingsFails |-> C11_MissingSettingsFails, C11_WellFormedSettingsAccepted |-> C11_WellFormedSettingsAccepted, C11_FlowControlIff |-> C11_FlowControlIff,
  C03_TunnelSurvives |-> C03_TunnelSurvives, C03_BystandersComplete |-> C03_BystandersComplete,
  C02_ResultOnce |-> C02_ResultOnce, C02_CloseCarriesHandlerStatus |-> C02_CloseCarriesHandlerStatus,
  C02_StatusExact |-> C02_StatusExact, C02_TrailersAtTerminal |-> C02_TrailersAtTerminal,
  C02_HeadersExact |-> C02_HeadersExact, C02_HeadersByFirstMsg |-> C02_HeadersByFirstMsg,
  C02_RequestMD |-> C02_RequestMD, C02_EncodableMetadata |-> C02_EncodableMetadata,
  C07_OneLegalOutcome |-> C07_OneLegalOutcome, C07_CallerEndsAlone |-> C07_CallerEndsAlone, C07_NoMixture |-> C07_NoMixture,
  C07_HandlerReleased |-> C07_HandlerReleased,
  C04_CallsEnd |-> C04_CallsEnd, C04_HandlersReleased |-> C04_HandlersReleased,
  C04_ClientObserves |-> C04_ClientObserves, C04_ServerObserves |-> C04_ServerObserves,
  C04_ErrNilIffClean |-> C04_ErrNilIffClean, C04_ErrStableAtDone |-> C04_ErrStableAtDone, C04_FailFast |-> C04_FailFast,
  C14_ClientTableExact |-> C14_ClientTableExact, C14_ServerTableExact |-> C14_ServerTableExact,
  C14_GoroutinesBaseline |-> C14_GoroutinesBaseline, C14_NothingAfterBothEnds |-> C14_NothingAfterBothEnds, C14_NothingAfterTunnel |-> C14_NothingAfterTunnel,
  C10_RefusedAfterShutdown |-> C10_RefusedAfterShutdown, C10_GracefulStopReturns |-> C10_GracefulStopReturns,
  C10_StopMeansStopped |-> C10_StopMeansStopped,
  C16_SecondSendRefused |-> C16_SecondSendRefused, C16_OneRequestOnly |-> C16_OneRequestOnly,
  C16_NoSuccessOnWrongCount |-> C16_NoSuccessOnWrongCount, C16_NoRequestFromMalformedStream |-> C16_NoRequestFromMalformedStream,
  C08_ExactlyOneWhenCompleted |-> C08_ExactlyOneWhenCompleted, C08_StaleIdEndsTunnel |-> C08_StaleIdEndsTunnel,
  C09_SrvTunnelLevel |-> C09_SrvTunnelLevel, C09_CliTunnelLevel |-> C09_CliTunnelLevel,
  C09_SrvStreamLevel |-> C09_SrvStreamLevel, C09_CliStreamLevel |-> C09_CliStreamLevel,
  C09_CliReleased |-> C09_CliReleased, C09_NotWedged |-> C09_NotWedged, C09_BoundedBuffer |-> C09_BoundedBuffer,
  C17_HandlerSeesTunnelMD |-> C17_HandlerSeesTunnelMD, C17_CallerSeesOpeningMD |-> C17_CallerSeesOpeningMD,
  C17_PrivateCopies |-> C17_PrivateCopies, C17_HandlerSeesPeerAndValues |-> C17_HandlerSeesPeerAndValues,
  C17_CallerSeesCarryingChannel |-> C17_CallerSeesCarryingChannel
]

=============================================================================
