SPECIFICATION GenSpec
CONSTANTS
  W = 8
  CH = 2
  RPCs <- Two
  CScript <- G_two
  SScript <- GS_two
  Faults <- AllFaults4
  MaxFaults = 1
  Stepped = TRUE
  Dir = "rev"
CHECK_DEADLOCK FALSE
INVARIANTS PrintSched
