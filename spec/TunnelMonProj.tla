---------------------------- MODULE TunnelMonProj ----------------------------
(***************************************************************************)
(* Reads one recorded execution of the real library through the            *)
(* observation automaton (like TunnelMon) and writes, for every quiescent  *)
(* point ("q" line), the projection ObsProj of the observation state.      *)
(* spec/TunnelTrace.tla compares these with the detailed model's.          *)
(***************************************************************************)
EXTENDS TunnelObs, Json, IOUtils

Trace == ndJsonDeserialize(IOEnv.VERIF_TRACE)

VARIABLES l, projs
vars == <<l, projs, ovars>>
Ev == Trace[l]

Init == l = 1 /\ projs = <<>> /\ OInit

Next ==
  /\ l <= Len(Trace)
  /\ l' = l + 1
  /\ IF Ev.ev = "end"
     THEN /\ JsonSerialize(IOEnv.VERIF_OUT, [ projs |-> projs, lines |-> l ])
          /\ UNCHANGED <<projs, ovars>>
     ELSE /\ OEvent(Ev)
          \* the projection AFTER the q line was consumed
          /\ projs' = IF Ev.ev = "q" THEN Append(projs, [l |-> l, p |-> ObsProj']) ELSE projs

Spec == Init /\ [][Next]_vars
=============================================================================
