----------------------------- MODULE RegistryMon -----------------------------
(***************************************************************************)
(* Trace specification for the reverse-tunnel registry of a                 *)
(* TunnelServiceHandler and for ReverseTunnelServer (C12; the registry and  *)
(* server clauses of C10 and C14).  Events are recorded by the harness      *)
(* (harness/drv/registry_test.go) from the real library: several reverse    *)
(* tunnels with affinity keys are opened, ended from either end or broken,  *)
(* interleaved with RPCs routed through the pooled channels, Ready /        *)
(* WaitForReady / AllReverseTunnels calls; "rq" lines are quiescent points. *)
(***************************************************************************)
EXTENDS Integers, Sequences, FiniteSets, TLC, Json, IOUtils, SequencesExt

Trace == ndJsonDeserialize(IOEnv.VERIF_TRACE)

VARIABLES l, tidx, tn, rr, waits, rq, bad, viol
vars == <<l, tidx, tn, rr, waits, rq, bad, viol>>

Ev == Trace[l]

T0 == [key |-> "", known |-> FALSE, regG |-> FALSE, regK |-> FALSE, ended |-> FALSE, cbOpen |-> 0, cbClose |-> 0,
       serves |-> 0, serveRets |-> 0, stopped |-> FALSE, stopRet |-> FALSE, closing |-> FALSE, unreg |-> FALSE,
       servedAfterStop |-> FALSE,
       \* Stop / GracefulStop calls on this tunnel's server and their returns; srv = the tunnel that stands for the server
       stopCalls |-> 0, stopRets |-> 0, gstopCalls |-> 0, gstopRets |-> 0, srv |-> 0,
       \* whether the serving end disabled flow control; the revision the channel reported when it was registered
       nofc |-> FALSE, rev |-> -1]
RQ0 == [at |-> FALSE, enum |-> <<>>, ready |-> [all |-> FALSE], parked |-> <<>>, pending |-> <<>>, hlive |-> <<>>, final |-> FALSE, g |-> 0]

TN(t) == IF t \in DOMAIN tn THEN tn[t] ELSE T0
SetT(t, rec) == [x \in (DOMAIN tn) \cup {t} |-> IF x = t THEN rec ELSE tn[x]]

KeyOfVia(v) == SubSeq(v, 5, Len(v))   \* "key:<k>" -> <k>; not evaluated for "all"
\* strings cannot be sliced in TLC: the harness only uses these pooled channels
Vias == {"all", "key:", "key:k1", "key:k2"}
ViaKey(v) == CASE v = "key:" -> "" [] v = "key:k1" -> "k1" [] v = "key:k2" -> "k2" [] OTHER -> "?"
Matches(t, v) == v = "all" \/ tn[t].key = ViaKey(v)

\* the tunnels the registry must offer: registered (both steps done) and not ended
Open == { t \in DOMAIN tn : tn[t].regG /\ ~tn[t].ended }
OpenFor(v) == { t \in Open : Matches(t, v) }
Seqset(s) == { s[i] : i \in 1..Len(s) }

Init == l = 1 /\ tidx = -1 /\ tn = [x \in {} |-> T0] /\ rr = [v \in Vias |-> <<>>] /\ waits = [x \in {} |-> "all"]
        /\ rq = RQ0 /\ bad = {} /\ viol = {}

Quiet == rq.at /\ rq.parked = <<>>

\* ---- formulas ----------------------------------------------------------------
BadHas(c) == \E x \in bad : x[1] = c
C12_RegistryMatches ==
  Quiet => /\ Seqset(rq.enum) = Open
           /\ \A v \in Vias : rq.ready[v] = (OpenFor(v) # {})
C12_RoutedToOpenRightKey == ~BadHas("routed-to-wrong-or-closed") /\ ~BadHas("unavailable-although-open") /\ ~BadHas("served-by-other-tunnel")
\* C17: with RPCs spread over several reverse tunnels WithTunnelChannel reports the tunnel that served the RPC
C17_CallerSeesCarryingChannel == ~BadHas("served-by-other-tunnel")
C12_ReadyIff == ~BadHas("ready-wrong")
C12_WaitForReadyWakes ==
  Quiet => \A i \in 1..Len(rq.pending) : rq.pending[i] \in DOMAIN waits => OpenFor(waits[rq.pending[i]]) = {}
C12_RoundRobin == ~BadHas("round-robin")
C12_Callbacks ==
  /\ \A t \in DOMAIN tn : tn[t].cbOpen <= 1 /\ tn[t].cbClose <= tn[t].cbOpen
  /\ Quiet => \A t \in DOMAIN tn :
       /\ (tn[t].regG /\ ~tn[t].ended) => tn[t].cbOpen = 1
       /\ (tn[t].ended /\ t \notin Seqset(rq.hlive)) => tn[t].cbClose = tn[t].cbOpen
\* a Serve call that has returned leaves no stream of its own open on the network server (C14)
C14_ServeLeavesNothing ==
  Quiet => \A t \in DOMAIN tn : (tn[t].serves > 0 /\ tn[t].serveRets = tn[t].serves) => t \notin Seqset(rq.hlive)
C14_RegistryEmptyAtEnd == (rq.at /\ rq.final) => (rq.enum = <<>> /\ rq.hlive = <<>> /\ rq.g = 0)
C10_NoNewTunnels == ~BadHas("serve-after-stop-started")
\* ... and once Stop has returned every Serve call on that server has returned (judged at quiescent points: Serve
\* releases Stop from a deferred call, a hair before it returns to its own caller, so the two log lines may swap)
C10_StopMeansStopped ==
  /\ ~BadHas("stop-returned-before-serve")
  /\ Quiet => \A t \in DOMAIN tn : (tn[t].stopCalls > 0 /\ tn[t].stopRets = tn[t].stopCalls) =>
                 \A u \in DOMAIN tn : (tn[u].srv = tn[t].srv /\ tn[u].known) => tn[u].serveRets = tn[u].serves

\* Stop ends the tunnels and returns; GracefulStop returns once no tunnel of its server is left (whether an
\* IDLE tunnel keeps it waiting is finding D8 and is not judged here: only "nothing left, still waiting")
C10_StopReturns == Quiet => \A t \in DOMAIN tn : tn[t].stopRets = tn[t].stopCalls
C10_GracefulStopReturnsWhenDrained ==
  Quiet => \A t \in DOMAIN tn : (tn[t].gstopRets < tn[t].gstopCalls) =>
              \E u \in Seqset(rq.enum) : u \in DOMAIN tn /\ tn[u].srv = tn[t].srv
\* every tunnel negotiates for itself: revision one exactly when its serving end has not disabled flow control,
\* whatever other tunnels of the same handler negotiated before
C11_RevisionPerTunnel == \A t \in DOMAIN tn : tn[t].rev # -1 => tn[t].rev = (IF tn[t].nofc THEN 0 ELSE 1)
Formulas == [C11_RevisionPerTunnel |-> C11_RevisionPerTunnel, C10_StopReturns |-> C10_StopReturns, C10_GracefulStopReturnsWhenDrained |-> C10_GracefulStopReturnsWhenDrained,
             C12_RegistryMatches |-> C12_RegistryMatches, C12_RoutedToOpenRightKey |-> C12_RoutedToOpenRightKey,
             C12_ReadyIff |-> C12_ReadyIff, C12_WaitForReadyWakes |-> C12_WaitForReadyWakes, C12_RoundRobin |-> C12_RoundRobin,
             C12_Callbacks |-> C12_Callbacks, C14_ServeLeavesNothing |-> C14_ServeLeavesNothing,
             C14_RegistryEmptyAtEnd |-> C14_RegistryEmptyAtEnd, C10_NoNewTunnels |-> C10_NoNewTunnels,
             C10_StopMeansStopped |-> C10_StopMeansStopped, C17_CallerSeesCarryingChannel |-> C17_CallerSeesCarryingChannel]
Detail(n) == CASE n = "C14_ServeLeavesNothing" -> "serve-while-closing" [] OTHER -> ""
NewViol == LET F == Formulas IN
           { <<tidx, n, l - 1, Detail(n)>> : n \in { m \in DOMAIN F : ~F[m] /\ ~\E v \in viol : v[1] = tidx /\ v[2] = m } }

\* ---- transitions ---------------------------------------------------------------
\* any n consecutive RPCs through one pooled channel over a stable set of n tunnels use each once
RRBad(seq, n) == n >= 2 /\ Len(seq) >= n /\ Cardinality({ seq[i] : i \in (Len(seq) - n + 1)..Len(seq) }) < n

Reg(e) ==
  LET t == IF "t" \in DOMAIN e THEN e.t ELSE 0 IN
  CASE e.what = "serve.start" ->
         /\ tn' = SetT(t, [TN(t) EXCEPT !.key = e.key, !.known = TRUE, !.serves = @ + 1,
                                      !.srv = IF "again" \in DOMAIN e THEN e.of ELSE t,
                                      !.nofc = IF "nofc" \in DOMAIN e THEN e.nofc ELSE FALSE,
                                      \* a further Serve call on a server that is stopped / stopping
                                      !.stopped = IF "again" \in DOMAIN e THEN TN(e.of).stopped ELSE @,
                                      !.closing = IF "again" \in DOMAIN e THEN TN(e.of).closing ELSE @])
         /\ UNCHANGED <<rr, waits, bad>>
    [] e.what = "serve.ret" ->
         /\ tn' = SetT(t, [TN(t) EXCEPT !.serveRets = @ + 1, !.ended = TRUE])
         /\ bad' = bad
              \cup (IF "again" \in DOMAIN e /\ (TN(t).stopped \/ TN(t).closing) /\ (e.started \/ e.code # 14)
                    THEN {<<"serve-after-stop-started", t>>} ELSE {})
              \* Stop had already returned, yet this Serve call went on to serve a tunnel
              \cup (IF e.started /\ TN(t).stopRet /\ ~("again" \in DOMAIN e) /\ FALSE THEN {} ELSE {})
              \cup (IF e.started /\ TN(IF "of" \in DOMAIN e THEN e.of ELSE t).stopRet /\ TN(t).servedAfterStop
                    THEN {<<"stop-returned-before-serve", t>>} ELSE {})
         /\ rr' = [v \in Vias |-> <<>>]
         /\ UNCHANGED waits
    [] e.what \in {"stop", "close", "fail", "ctxcancel"} ->
         /\ tn' = SetT(t, [TN(t) EXCEPT !.ended = TRUE, !.stopped = @ \/ e.what = "stop",
                                      !.stopCalls = IF e.what = "stop" THEN @ + 1 ELSE @])
         /\ rr' = [v \in Vias |-> <<>>]
         /\ UNCHANGED <<waits, bad>>
    [] e.what = "gstop" -> tn' = SetT(t, [TN(t) EXCEPT !.closing = TRUE, !.gstopCalls = @ + 1]) /\ UNCHANGED <<rr, waits, bad>>
    [] e.what = "gstop.ret" -> tn' = SetT(t, [TN(t) EXCEPT !.gstopRets = @ + 1]) /\ UNCHANGED <<rr, waits, bad>>
    [] e.what = "stop.ret" ->
         /\ tn' = SetT(t, [TN(t) EXCEPT !.stopRet = TRUE, !.stopRets = @ + 1])
         /\ UNCHANGED <<rr, waits, bad>>
    [] e.what = "cb.open" ->
         /\ tn' = SetT(t, [TN(t) EXCEPT !.cbOpen = @ + 1, !.rev = IF "rev" \in DOMAIN e THEN e.rev ELSE @])
         /\ rr' = [v \in Vias |-> <<>>]
         /\ UNCHANGED <<waits, bad>>
    [] e.what = "cb.close" -> tn' = SetT(t, [TN(t) EXCEPT !.cbClose = @ + 1]) /\ UNCHANGED <<rr, waits, bad>>
    [] e.what = "rpc" ->
         LET quiet == rq.parked = <<>> IN
         /\ bad' = bad
              \cup (IF quiet /\ e.cls = "ok" /\ ~(e.chan \in OpenFor(e.via)) THEN {<<"routed-to-wrong-or-closed", e.chan>>} ELSE {})
              \cup (IF e.cls = "ok" /\ e.served # e.chan THEN {<<"served-by-other-tunnel", e.chan>>} ELSE {})
              \* (a tunnel whose server is shutting down gracefully refuses new RPCs: C10)
              \cup (IF quiet /\ e.cls # "ok" /\ OpenFor(e.via) # {} /\ ~\E ot \in OpenFor(e.via) : tn[ot].closing
                    THEN {<<"unavailable-although-open", 0>>} ELSE {})
              \cup (IF quiet /\ e.cls = "ok" /\ RRBad(Append(rr[e.via], e.chan), Cardinality(OpenFor(e.via))) THEN {<<"round-robin", e.chan>>} ELSE {})
         /\ rr' = IF e.cls = "ok" THEN [rr EXCEPT ![e.via] = Append(@, e.chan)] ELSE rr
         /\ UNCHANGED <<tn, waits>>
    [] e.what = "ready" ->
         /\ bad' = IF rq.parked = <<>> /\ e.val # (OpenFor(e.via) # {}) THEN bad \cup {<<"ready-wrong", 0>>} ELSE bad
         /\ UNCHANGED <<tn, rr, waits>>
    [] e.what = "wait.start" ->
         /\ waits' = [x \in (DOMAIN waits) \cup {e.op} |-> IF x = e.op THEN e.via ELSE waits[x]]
         /\ UNCHANGED <<tn, rr, bad>>
    [] OTHER -> UNCHANGED <<tn, rr, waits, bad>>

Hook(e) ==
  CASE e.point = "reg.add.key" -> tn' = SetT(e.t, [TN(e.t) EXCEPT !.regG = TRUE, !.regK = TRUE, !.servedAfterStop = TN(e.t).stopRet])
    [] e.point \in {"reg.unreg.global", "reg.unreg.key"} -> tn' = SetT(e.t, [TN(e.t) EXCEPT !.ended = TRUE])
    [] OTHER -> UNCHANGED tn

Next ==
  /\ l <= Len(Trace)
  /\ l' = l + 1
  /\ IF Ev.ev = "end"
     THEN /\ JsonSerialize(IOEnv.VERIF_OUT, [violations |-> SetToSeq(viol \cup NewViol), lines |-> l])
          /\ UNCHANGED <<tidx, tn, rr, waits, rq, bad, viol>>
     ELSE /\ viol' = viol \cup NewViol
          /\ CASE Ev.ev = "reset" ->
                    /\ tidx' = Ev.idx /\ tn' = [x \in {} |-> T0] /\ rr' = [v \in Vias |-> <<>>]
                    /\ waits' = [x \in {} |-> "all"] /\ rq' = RQ0 /\ bad' = {}
               [] Ev.ev = "reg" -> Reg(Ev) /\ rq' = [rq EXCEPT !.at = FALSE] /\ UNCHANGED tidx
               [] Ev.ev \in {"hook", "unpark"} /\ Ev.point \in {"reg.add.key", "reg.unreg.global", "reg.unreg.key"} ->
                    Hook(Ev) /\ rq' = [rq EXCEPT !.at = FALSE] /\ UNCHANGED <<tidx, rr, waits, bad>>
               [] Ev.ev = "rq" ->
                    /\ rq' = [at |-> TRUE, enum |-> Ev.enum, ready |-> Ev.ready, parked |-> Ev.parked, pending |-> Ev.pending,
                              hlive |-> Ev.hlive, final |-> Ev.final, g |-> Ev.g]
                    /\ UNCHANGED <<tidx, tn, rr, waits, bad>>
               [] OTHER -> rq' = [rq EXCEPT !.at = FALSE] /\ UNCHANGED <<tidx, tn, rr, waits, bad>>
Spec == Init /\ [][Next]_vars
=============================================================================
