SPECIFICATION TSpec
CONSTANTS
  Tunnels <- TrTunnels
  Keys <- TrKeys
  KeyOf <- TrKeyOf
  MaxPicks = 100000
CHECK_DEADLOCK FALSE
INVARIANT NotAccepted
CONSTRAINT Track
POSTCONDITION Post
