------------------------------ MODULE TunnelMon ------------------------------
(***************************************************************************)
(* Trace specification: validates event logs recorded from the REAL        *)
(* library (harness/) against the observation automaton of TunnelObs.tla   *)
(* and evaluates every property formula Cxx_* in every state of every      *)
(* recorded execution.                                                     *)
(*                                                                         *)
(* Many traces are concatenated in one file (each starts with a "reset"    *)
(* line).  Violated formulas are collected in the variable viol (first     *)
(* position per trace and formula, with the formula-specific               *)
(* classification of the violating history) and written to a JSON file by  *)
(* the last step ("end" line), so that one TLC run judges all of them.     *)
(* Acceptance = the output file exists and reports that every line was     *)
(* consumed.                                                               *)
(***************************************************************************)
EXTENDS TunnelObs, Json, IOUtils

TraceFile == IOEnv.VERIF_TRACE
OutFile   == IOEnv.VERIF_OUT

Trace == ndJsonDeserialize(TraceFile)

VARIABLES l,      \* position in Trace
          tidx,   \* index of the current trace (from the reset line)
          viol    \* {<<trace index, formula name, position, classification>>}

vars == <<l, tidx, viol, ovars>>

Ev == Trace[l]

Init == l = 1 /\ tidx = -1 /\ viol = {} /\ OInit

Violated == LET F == Formulas IN { n \in DOMAIN F : ~F[n] }

\* classification of the violating history (the signature used by the list of
\* known findings): formula-specific, "" by default
Detail(n) ==
  CASE n = "C03_TunnelSurvives" -> IF tun.marshalFail THEN "unencodable-metadata" ELSE ""
    [] n = "C02_EncodableMetadata" -> "non-utf8-binary-value"
    [] n = "C10_GracefulStopReturns" -> IF q.nsrv > 0 /\ q.stab = 0 THEN "idle-tunnel" ELSE ""
    \* Err() read at the very moment Done() fired, before the channel had recorded how it ended
    \* only the direction of finding D14: an error right at Done(), nil once settled, after a clean close
    [] n = "C04_ErrStableAtDone" -> IF tun.chErr = "err" /\ tun.chSettled = "ok" /\ tun.firstCause \in {"close", "stop"}
                                    THEN "canceled-at-done-nil-when-settled" ELSE ""
    [] OTHER -> ""

\* record the first position per trace and formula
NewViol == LET V == Violated IN
           { <<tidx, n, l - 1, Detail(n)>> : n \in { m \in V : ~\E v \in viol : v[1] = tidx /\ v[2] = m } }

Next ==
  /\ l <= Len(Trace)
  /\ l' = l + 1
  /\ IF Ev.ev = "end"
     THEN /\ JsonSerialize(OutFile, [ violations |-> SetToSeq(viol \cup NewViol), lines |-> l ])
          /\ UNCHANGED <<tidx, viol, ovars>>
     ELSE /\ viol' = viol \cup NewViol
          /\ tidx' = IF Ev.ev = "reset" THEN Ev.idx ELSE tidx
          /\ OEvent(Ev)

Spec == Init /\ [][Next]_vars
=============================================================================
