------------------------------ MODULE TunnelMon ------------------------------
(***************************************************************************)
(* Trace specification ("monitor") for one grpctunnel tunnel.              *)
(*                                                                         *)
(* The harness records, for an execution of the real library, every frame  *)
(* put on / taken off the carrier stream, every application call and its   *)
(* result on both ends of every RPC, every driver action (cancel, close,   *)
(* shutdown, fault) and every quiescent point.  This module consumes that  *)
(* log event by event, maintains the OBSERVATION-DERIVED state (the wire   *)
(* automaton of every stream, what each application submitted/obtained,    *)
(* credit accounting, tunnel-level causes) and evaluates the property      *)
(* formulas Cxx_* in every state.  The formulas only talk about            *)
(* observations, so they stay meaningful whatever the internal structure   *)
(* of the implementation is.                                               *)
(*                                                                         *)
(* Violated formulas are collected in the variable viol (first position    *)
(* per trace and formula) and written to a JSON file by the last step, so  *)
(* that one TLC run judges many concatenated traces.                       *)
(***************************************************************************)
EXTENDS Integers, Sequences, FiniteSets, TLC, Json, SequencesExt, IOUtils

CONSTANTS W,    \* initial flow-control window advertised by this library (65536)
          CH    \* maximum number of message bytes in one frame (16384)

TraceFile == IOEnv.VERIF_TRACE
OutFile   == IOEnv.VERIF_OUT

Trace == ndJsonDeserialize(TraceFile)

VARIABLES l,      \* position in Trace
          tidx,   \* index of the current trace (from the reset line)
          cfg,    \* the "open" event of the current trace (configuration)
          wq,     \* frames sent per wire direction, in order (the events themselves)
          ws,     \* per stream id: wire automaton + delivery accounting
          rp,     \* per RPC (harness number): application-level history
          tun,    \* tunnel-level observations
          bad,    \* protocol-rule breaches detected at the step where they occur: {<<clause, sid>>}
          now,    \* virtual time in ms
          q,      \* the last quiescent-point record; q.at = TRUE only right after a "q" event
          viol    \* {<<trace index, formula name, position>>}

vars == <<l, tidx, cfg, wq, ws, rp, tun, bad, now, q, viol>>

Ev == Trace[l]

Max2(a, b) == IF a > b THEN a ELSE b
Min2(a, b) == IF a < b THEN a ELSE b

---------------------------------------------------------------------------
(* Metadata: a function from keys to sequences of values; every metadata  *)
(* object carries the sentinel key "_" so that it is never empty.          *)
MD0 == [k \in {"_"} |-> <<>>]
MDJoin(a, b) == [k \in (DOMAIN a) \cup (DOMAIN b) |->
                    (IF k \in DOMAIN a THEN a[k] ELSE <<>>) \o (IF k \in DOMAIN b THEN b[k] ELSE <<>>)]
MDEq(a, b) == /\ DOMAIN a = DOMAIN b
              /\ \A k \in DOMAIN a : a[k] = b[k]

SumSeq(s) == LET RECURSIVE Sum(_)
                 Sum(i) == IF i = 0 THEN 0 ELSE s[i] + Sum(i - 1)
             IN Sum(Len(s))

Prefix(s, n) == SubSeq(s, 1, Min2(n, Len(s)))

---------------------------------------------------------------------------
(* Initial records                                                         *)

NoClose == [code |-> -1, msg |-> "", det |-> "0", md |-> MD0]
NoRes   == [cls |-> "none", code |-> 0, msg |-> "", det |-> "0"]

WS0 == [ rpc |-> 0, news |-> 0, rev |-> -1, win |-> 0, method |-> "", md |-> MD0,
         first |-> "",                \* kind of the first c2s frame of this id
         \* client-to-server frames as sent
         cOpen |-> -1, cEnv |-> <<>>, cBytes |-> 0, cHalf |-> 0, cCancel |-> 0, cWu |-> <<>>,
         \* server-to-client frames as sent
         sOpen |-> -1, sEnv |-> <<>>, sBytes |-> 0, sHdr |-> 0, sHdrMD |-> MD0, sClose |-> 0,
         close |-> NoClose, sWu |-> <<>>, hEnded |-> FALSE, sAfter |-> 0,
         \* delivery to the tunnel server
         newDeliv |-> FALSE, newAfterShutdown |-> FALSE, cData |-> <<>>, cOpenD |-> -1, cMsgsD |-> 0,
         halfDeliv |-> FALSE, cancelDeliv |-> FALSE, cWuD |-> 0, sViolD |-> FALSE,
         \* delivery to the tunnel client
         hdrDeliv |-> FALSE, sData |-> <<>>, sOpenD |-> -1, sMsgsD |-> 0, closeDeliv |-> FALSE,
         sWuD |-> 0, cViolD |-> FALSE,
         \* first terminal cause seen by the tunnel client for this stream
         cliEnd |-> "" ]

RP0 == [ shape |-> "", sid |-> 0, cstart |-> FALSE, started |-> FALSE, startFail |-> FALSE,
         t0 |-> 0, timeout |-> 0, method |-> "", mdSent |-> MD0, opts |-> <<>>,
         sentC |-> <<>>, okC |-> 0, errC |-> 0, gotS |-> <<>>, intactS |-> TRUE, sEOF |-> FALSE, okCatEOF |-> 0,
         sentS |-> <<>>, okS |-> 0, errS |-> 0, gotC |-> <<>>, intactC |-> TRUE,
         recvC |-> 0, recvS |-> 0,
         cRes |-> NoRes, cResMismatch |-> FALSE, trlSeen |-> FALSE, trl |-> MD0, trlT |-> MD0, hasTrlT |-> FALSE,
         hdrSeen |-> FALSE, hdr |-> MD0, hdrMismatch |-> FALSE, hdrT |-> MD0, hasHdrT |-> FALSE, hdrTBad |-> FALSE,
         cancelled |-> FALSE, localCause |-> {},
         inv |-> 0, invShape |-> "", invMethod |-> "", invMD |-> MD0,
         hHdr |-> MD0, hTrl |-> MD0, hRet |-> NoClose, hRetStarted |-> FALSE,
         hResp |-> -1,
         secondSendC |-> "none", secondSendS |-> "none",
         hCtxErrFabricated |-> FALSE ]

Tun0 == [ opened |-> FALSE, started |-> FALSE, startFail |-> FALSE, chdone |-> FALSE, chErr |-> "none",
          serveRet |-> FALSE, serveCls |-> "none", causes |-> {},
          lastNew |-> 0, settingsSent |-> 0, settingsDeliv |-> FALSE, winC2S |-> W,
          shutdown |-> FALSE, gstopRet |-> FALSE, stopCalled |-> FALSE, stopRet |-> FALSE,
          baseG |-> -1, fc |-> TRUE ]

Q0 == [ at |-> FALSE, final |-> FALSE, blocked |-> <<>>, h |-> <<>>, parked |-> <<>>, ctab |-> -1, stab |-> 0,
        nsrv |-> 0, qc2s |-> 0, qs2c |-> 0, g |-> -1, chdone |-> FALSE ]

Cfg0 == [ dir |-> "fwd", cliNoFC |-> FALSE, srvNoFC |-> FALSE, rawCli |-> "", rawSrv |-> "", cap |-> 0, auto |-> FALSE ]

WSof(s) == IF s \in DOMAIN ws THEN ws[s] ELSE WS0
RPof(r) == IF r \in DOMAIN rp THEN rp[r] ELSE RP0

SetWS(s, rec) == [x \in (DOMAIN ws) \cup {s} |-> IF x = s THEN rec ELSE ws[x]]
SetRP(r, rec) == [x \in (DOMAIN rp) \cup {r} |-> IF x = r THEN rec ELSE rp[x]]

RealCli == cfg.rawCli = ""
RealSrv == cfg.rawSrv = ""

\* Flow control is expected on this tunnel iff both ends advertise negotiation
\* and neither has disabled it.
FCExpected == /\ ~cfg.cliNoFC /\ ~cfg.srvNoFC
              /\ cfg.rawCli # "legacy" /\ cfg.rawSrv # "legacy"

Init ==
  /\ l = 1 /\ tidx = -1 /\ cfg = Cfg0 /\ wq = [c2s |-> <<>>, s2c |-> <<>>]
  /\ ws = [x \in {} |-> WS0] /\ rp = [x \in {} |-> RP0] /\ tun = Tun0 /\ bad = {}
  /\ now = 0 /\ q = Q0 /\ viol = {}

---------------------------------------------------------------------------
(* The wire automaton: frames as they are SENT.                            *)

Flag(cond, clause, s) == IF cond THEN {<<clause, s>>} ELSE {}

SendC2S(e, w) ==
  LET s == e.sid IN
  CASE e.kind = "new" ->
        [ w EXCEPT !.news = @ + 1, !.rpc = e.rpc, !.rev = e.rev, !.win = e.win, !.method = e.method,
                   !.md = e.md, !.first = IF @ = "" THEN "new" ELSE @ ]
    [] e.kind = "msg" ->
        [ w EXCEPT !.cOpen = e.size - e.len, !.cEnv = Append(@, e.size), !.cBytes = @ + e.len,
                   !.first = IF @ = "" THEN "msg" ELSE @ ]
    [] e.kind = "more" ->
        [ w EXCEPT !.cOpen = IF @ > 0 THEN @ - e.len ELSE @, !.cBytes = @ + e.len,
                   !.first = IF @ = "" THEN "more" ELSE @ ]
    [] e.kind = "half" ->
        [ w EXCEPT !.cHalf = @ + 1, !.first = IF @ = "" THEN "half" ELSE @ ]
    [] e.kind = "cancel" ->
        [ w EXCEPT !.cCancel = @ + 1, !.first = IF @ = "" THEN "cancel" ELSE @ ]
    [] e.kind = "wu" ->
        [ w EXCEPT !.cWu = Append(@, e.len), !.first = IF @ = "" THEN "wu" ELSE @ ]
    [] OTHER -> [ w EXCEPT !.first = IF @ = "" THEN e.kind ELSE @ ]

\* Breaches of the documented protocol by a frame the (real) tunnel client sends.
BadC2S(e, w) ==
  LET s == e.sid IN
  CASE e.kind = "new" ->
           Flag(s <= tun.lastNew, "ids.increasing", s)
      \cup Flag(w.news > 0, "ids.dup", s)
      \cup Flag(e.rev # (IF FCExpected THEN 1 ELSE 0) /\ RealSrv, "neg.rev", s)
    [] e.kind = "msg" ->
           Flag(w.news = 0, "newfirst", s)
      \cup Flag(w.cOpen > 0, "framing.envelope-inside-message", s)
      \cup Flag(e.len > e.size, "framing.len>size", s)
      \cup Flag(e.len > CH, "chunkmax", s)
      \cup Flag(w.cHalf > 0, "data-after-half", s)
    [] e.kind = "more" ->
           Flag(w.news = 0, "newfirst", s)
      \cup Flag(w.cOpen <= 0, "framing.continuation-without-message", s)
      \cup Flag(w.cOpen > 0 /\ e.len > w.cOpen, "framing.overrun-of-size", s)
      \cup Flag(e.len > CH, "chunkmax", s)
      \cup Flag(w.cHalf > 0, "data-after-half", s)
    [] e.kind = "half" ->
           Flag(w.news = 0, "newfirst", s)
      \cup Flag(w.cHalf > 0, "half.twice", s)
    [] e.kind = "cancel" ->
           Flag(w.news = 0, "newfirst", s)
      \cup Flag(w.cCancel > 0, "cancel.twice", s)
    [] e.kind = "wu" ->
           Flag(w.news = 0, "newfirst", s)
      \cup Flag(w.rev = 0, "legacy.wu", s)
    [] OTHER -> {<<"unknown-frame", s>>}

SendS2C(e, w) ==
  CASE e.kind = "hdr" -> [ w EXCEPT !.sHdr = @ + 1, !.sHdrMD = IF w.sHdr = 0 THEN e.md ELSE @,
                                    !.sAfter = IF w.sClose > 0 THEN @ + 1 ELSE @ ]
    [] e.kind = "msg" -> [ w EXCEPT !.sOpen = e.size - e.len, !.sEnv = Append(@, e.size), !.sBytes = @ + e.len,
                                    !.sAfter = IF w.sClose > 0 THEN @ + 1 ELSE @ ]
    [] e.kind = "more" -> [ w EXCEPT !.sOpen = IF @ > 0 THEN @ - e.len ELSE @, !.sBytes = @ + e.len,
                                     !.sAfter = IF w.sClose > 0 THEN @ + 1 ELSE @ ]
    [] e.kind = "close" ->
         [ w EXCEPT !.sClose = @ + 1,
                    !.close = IF w.sClose = 0 THEN [code |-> e.code, msg |-> e.msg, det |-> e.det, md |-> e.md] ELSE @,
                    \* did the handler end this stream (it returned before the peer's cancel arrived)?
                    !.hEnded = IF w.sClose = 0 THEN (w.rpc \in DOMAIN rp /\ rp[w.rpc].hRetStarted /\ ~w.cancelDeliv /\ ~w.sViolD) ELSE @ ]
    [] e.kind = "wu" -> [ w EXCEPT !.sWu = Append(@, e.len), !.sAfter = IF w.sClose > 0 THEN @ + 1 ELSE @ ]
    [] OTHER -> w

BadS2C(e, w) ==
  LET s == e.sid IN
  CASE e.kind = "settings" ->
           Flag(Len(wq.s2c) > 0, "settings.not-first", s)
      \cup Flag(s # -1, "settings.sid", s)
      \cup Flag(cfg.rawCli = "legacy", "legacy.settings", s)
    [] e.kind = "hdr" ->
           Flag(w.sHdr > 0, "hdr.twice", s)
      \cup Flag(Len(w.sEnv) > 0, "hdr.after-message", s)
      \cup Flag(w.hEnded, "after-close", s)
    [] e.kind = "msg" ->
           Flag(w.sOpen > 0, "framing.envelope-inside-message", s)
      \cup Flag(e.len > e.size, "framing.len>size", s)
      \cup Flag(e.len > CH, "chunkmax", s)
      \cup Flag(w.sHdr = 0, "msg.before-hdr", s)
      \cup Flag(w.hEnded, "after-close", s)
    [] e.kind = "more" ->
           Flag(w.sOpen <= 0, "framing.continuation-without-message", s)
      \cup Flag(w.sOpen > 0 /\ e.len > w.sOpen, "framing.overrun-of-size", s)
      \cup Flag(e.len > CH, "chunkmax", s)
      \cup Flag(w.hEnded, "after-close", s)
    [] e.kind = "close" ->
           Flag(w.sClose > 0, "close.twice", s)
      \cup Flag(~w.newDeliv, "close.unknown-stream", s)
    [] e.kind = "wu" ->
           Flag(w.rev = 0, "legacy.wu", s)
      \cup Flag(w.hEnded, "after-close", s)
    [] OTHER -> {<<"unknown-frame", s>>}

TWireSend ==
  /\ Ev.ev = "wire.send"
  /\ LET e == Ev
         s == e.sid
         w == WSof(s)
     IN IF e.dir = "c2s"
        THEN /\ ws' = SetWS(s, SendC2S(e, w))
             /\ bad' = IF RealCli THEN bad \cup BadC2S(e, w) ELSE bad
             /\ tun' = IF e.kind = "new" THEN [tun EXCEPT !.lastNew = Max2(@, s)] ELSE tun
        ELSE /\ ws' = IF e.kind = "settings" THEN ws ELSE SetWS(s, SendS2C(e, w))
             /\ bad' = IF RealSrv THEN bad \cup BadS2C(e, w) ELSE bad
             /\ tun' = IF e.kind = "settings" THEN [tun EXCEPT !.settingsSent = @ + 1] ELSE tun
  /\ wq' = [wq EXCEPT ![Ev.dir] = Append(@, Ev)]
  /\ rp' = IF Ev.dir = "c2s" /\ Ev.kind = "new" /\ Ev.rpc # 0
            THEN SetRP(Ev.rpc, [ RPof(Ev.rpc) EXCEPT !.sid = Ev.sid ]) ELSE rp
  /\ UNCHANGED <<tidx, cfg, now>>

---------------------------------------------------------------------------
(* Frames as they are DELIVERED to the receiving endpoint.                 *)

\* reassembly on the delivered side: remaining bytes of the open message
OpenAfter(open, f) ==
  IF f.kind = "msg" THEN f.size - f.len
  ELSE IF open > 0 THEN open - f.len ELSE open

Completes(open, f) ==
  \/ f.kind = "msg" /\ f.len = f.size
  \/ f.kind = "more" /\ open > 0 /\ f.len = open

\* first terminal cause at the tunnel client for a stream
CliEnd(w, cause) == IF w.cliEnd = "" THEN cause ELSE w.cliEnd

DelivC2S(f, w) ==
  CASE f.kind = "new" -> [ w EXCEPT !.newDeliv = TRUE, !.newAfterShutdown = tun.shutdown ]
    [] f.kind \in {"msg", "more"} ->
         [ w EXCEPT !.cData = IF f.len > 0 THEN Append(@, f.len) ELSE @,
                    !.cOpenD = OpenAfter(w.cOpenD, f),
                    !.cMsgsD = IF Completes(w.cOpenD, f) /\ ~w.halfDeliv THEN @ + 1 ELSE @ ]
    [] f.kind = "half" -> [ w EXCEPT !.halfDeliv = TRUE ]
    [] f.kind = "cancel" -> [ w EXCEPT !.cancelDeliv = TRUE ]
    [] f.kind = "wu" -> [ w EXCEPT !.cWuD = @ + f.len ]
    [] OTHER -> w

DelivS2C(f, w) ==
  CASE f.kind = "hdr" -> [ w EXCEPT !.hdrDeliv = TRUE ]
    [] f.kind \in {"msg", "more"} ->
         [ w EXCEPT !.sData = IF f.len > 0 THEN Append(@, f.len) ELSE @,
                    !.sOpenD = OpenAfter(w.sOpenD, f),
                    !.sMsgsD = IF Completes(w.sOpenD, f) /\ ~w.closeDeliv THEN @ + 1 ELSE @ ]
    [] f.kind = "close" -> [ w EXCEPT !.closeDeliv = TRUE, !.cliEnd = CliEnd(w, "close") ]
    [] f.kind = "wu" -> [ w EXCEPT !.sWuD = @ + f.len ]
    [] OTHER -> w

TWireRecv ==
  /\ Ev.ev = "wire.recv"
  /\ LET f == wq[Ev.dir][Ev.n]
         s == f.sid
         w == WSof(s)
     IN IF Ev.dir = "c2s"
        THEN /\ ws' = SetWS(s, DelivC2S(f, w))
             /\ tun' = tun
        ELSE IF f.kind = "settings"
             THEN /\ ws' = ws
                  /\ tun' = [tun EXCEPT !.settingsDeliv = TRUE, !.winC2S = f.win]
             ELSE /\ ws' = SetWS(s, DelivS2C(f, w))
                  /\ tun' = tun
  /\ UNCHANGED <<tidx, cfg, wq, rp, bad, now>>

---------------------------------------------------------------------------
(* Application calls.                                                      *)

IdOf(m) == <<m.rpc, m.side, m.idx, m.size>>

ResOf(e) == [cls |-> e.cls, code |-> e.code, msg |-> e.msg, det |-> e.det]

\* a terminal result observed by the caller: the first one is kept, any later
\* one must be the same
Terminal(r, e) ==
  IF r.cRes.cls = "none"
  THEN [ r EXCEPT !.cRes = ResOf(e) ]
  ELSE [ r EXCEPT !.cResMismatch = @ \/ (ResOf(e) # r.cRes) ]

WithTrailers(r, e) ==
  IF "trl" \in DOMAIN e /\ ~r.trlSeen
  THEN [ r EXCEPT !.trlSeen = TRUE, !.trl = e.trl,
                  !.hasTrlT = "trlT" \in DOMAIN e,
                  !.trlT = IF "trlT" \in DOMAIN e THEN e.trlT ELSE MD0 ]
  ELSE r

TOpStart ==
  /\ Ev.ev = "op.start"
  /\ LET e == Ev
         r == RPof(e.rpc)
     IN rp' = SetRP(e.rpc,
          IF e.end = "c" THEN
            CASE e.op \in {"new", "invoke"} ->
                   LET r1 == [ r EXCEPT !.shape = e.shape, !.cstart = TRUE, !.t0 = now, !.timeout = e.timeout,
                                        !.method = e.method, !.mdSent = e.md, !.opts = e.opts ]
                   IN IF e.op = "invoke"
                      THEN [ r1 EXCEPT !.sentC = Append(@, <<e.rpc, "c", e.idx, e.size>>), !.recvC = @ + 2 ]
                      ELSE r1
              [] e.op = "send" ->
                   [ r EXCEPT !.sentC = Append(@, <<e.rpc, "c", e.idx, e.size>>) ]
              [] e.op = "recv" -> [ r EXCEPT !.recvC = @ + 1 ]
              [] OTHER -> r
          ELSE
            CASE e.op = "send" -> [ r EXCEPT !.sentS = Append(@, <<e.rpc, "s", e.idx, e.size>>) ]
              [] e.op = "recv" -> [ r EXCEPT !.recvS = @ + 1 ]
              [] e.op \in {"sethdr", "sendhdr"} ->
                   \* accepted only while the headers have not been sent
                   IF (r.sid \in DOMAIN ws => ws[r.sid].sHdr = 0) THEN [ r EXCEPT !.hHdr = MDJoin(@, e.md) ] ELSE r
              [] e.op = "settrl" ->
                   IF ~r.hRetStarted THEN [ r EXCEPT !.hTrl = MDJoin(@, e.md) ] ELSE r
              [] e.op = "ret" ->
                   LET r1 == [ r EXCEPT !.hRetStarted = TRUE,
                                        !.hRet = [code |-> e.code, msg |-> e.msg, det |-> e.det, md |-> r.hTrl] ]
                   IN IF r.shape = "unary" /\ e.code = 0 /\ e.n >= 0
                      THEN [ r1 EXCEPT !.hResp = e.size ] ELSE r1
              [] OTHER -> r)
  /\ UNCHANGED <<tidx, cfg, wq, ws, tun, bad, now>>

TOpRet ==
  /\ Ev.ev = "op.ret"
  /\ LET e == Ev
         r == RPof(e.rpc)
     IN rp' = SetRP(e.rpc,
          IF e.end = "c" THEN
            CASE e.op = "new" ->
                   IF e.cls = "ok" THEN [ r EXCEPT !.started = TRUE ] ELSE [ r EXCEPT !.startFail = TRUE ]
              [] e.op = "invoke" ->
                   LET r1 == IF e.cls = "ok"
                             THEN [ r EXCEPT !.gotC = Append(@, IdOf(e.m)), !.intactC = @ /\ e.m.intact, !.okC = @ + 1 ]
                             ELSE r
                       \* an OK Invoke is the terminal result EOF after exactly one message
                       r2 == Terminal(r1, IF e.cls = "ok" THEN [e EXCEPT !.cls = "eof"] ELSE e)
                   IN [ r2 EXCEPT !.trlSeen = "trlT" \in DOMAIN e, !.hasTrlT = "trlT" \in DOMAIN e,
                                  !.trlT = IF "trlT" \in DOMAIN e THEN e.trlT ELSE MD0,
                                  !.trl = IF "trlT" \in DOMAIN e THEN e.trlT ELSE MD0,
                                  !.hasHdrT = "hdrT" \in DOMAIN e,
                                  !.hdrT = IF "hdrT" \in DOMAIN e THEN e.hdrT ELSE MD0 ]
              [] e.op = "send" ->
                   LET second == r.shape \in {"unary", "sstream"} /\ e.idx >= 1 IN
                   IF e.cls = "ok"
                   THEN [ r EXCEPT !.okC = @ + 1, !.secondSendC = IF second THEN "accepted" ELSE @ ]
                   ELSE [ r EXCEPT !.errC = @ + 1, !.secondSendC = IF second /\ @ = "none" THEN "refused" ELSE @ ]
              [] e.op = "recv" ->
                   IF e.cls = "ok"
                   THEN [ r EXCEPT !.gotC = Append(@, IdOf(e.m)), !.intactC = @ /\ e.m.intact ]
                   ELSE WithTrailers(Terminal(r, e), e)
              [] e.op = "header" ->
                   IF e.cls = "ok"
                   THEN [ r EXCEPT !.hdrSeen = TRUE, !.hdr = IF r.hdrSeen THEN @ ELSE e.md,
                                   !.hdrMismatch = @ \/ (r.hdrSeen /\ ~MDEq(r.hdr, e.md)),
                                   !.hasHdrT = "hdrT" \in DOMAIN e,
                                   !.hdrT = IF "hdrT" \in DOMAIN e THEN e.hdrT ELSE MD0,
                                   !.hdrTBad = @ \/ ("hdrT" \in DOMAIN e /\ ~MDEq(e.hdrT, e.md)) ]
                   ELSE r
              [] e.op = "trailer" -> r
              [] OTHER -> r
          ELSE
            CASE e.op = "recv" ->
                   IF e.cls = "ok"
                   THEN [ r EXCEPT !.gotS = Append(@, IdOf(e.m)), !.intactS = @ /\ e.m.intact ]
                   ELSE IF e.cls = "eof"
                   THEN [ r EXCEPT !.sEOF = TRUE, !.okCatEOF = IF r.sEOF THEN @ ELSE r.okC ]
                   ELSE r
              [] e.op = "send" ->
                   LET second == r.shape \in {"unary", "cstream"} /\ e.idx >= 1 IN
                   IF e.cls = "ok"
                   THEN [ r EXCEPT !.okS = @ + 1, !.secondSendS = IF second THEN "accepted" ELSE @ ]
                   ELSE [ r EXCEPT !.errS = @ + 1, !.secondSendS = IF second /\ @ = "none" THEN "refused" ELSE @ ]
              [] OTHER -> r)
  /\ UNCHANGED <<tidx, cfg, wq, ws, tun, bad, now>>

TInvoked ==
  /\ Ev.ev = "invoked"
  /\ LET e == Ev
         r == RPof(e.rpc)
     IN rp' = SetRP(e.rpc, [ r EXCEPT !.inv = @ + 1, !.invShape = e.shape, !.invMethod = e.method, !.invMD = e.md ])
  /\ UNCHANGED <<tidx, cfg, wq, ws, tun, bad, now>>

---------------------------------------------------------------------------
(* Driver actions and tunnel-level observations.                           *)

\* every RPC in flight at the caller gets a local terminal cause
AllLocal(cause) ==
  [ s \in DOMAIN ws |-> [ ws[s] EXCEPT !.cliEnd = CliEnd(ws[s], cause) ] ]

SidOfRpc(r) == IF \E s \in DOMAIN ws : ws[s].rpc = r /\ ws[s].news > 0
               THEN CHOOSE s \in DOMAIN ws : ws[s].rpc = r /\ ws[s].news > 0
               ELSE 0

TCtl ==
  /\ Ev.ev = "ctl"
  /\ LET e == Ev IN
     CASE e.what = "cancel" ->
            LET s == SidOfRpc(e.rpc) IN
            /\ rp' = SetRP(e.rpc, [ RPof(e.rpc) EXCEPT !.cancelled = TRUE, !.localCause = @ \cup {1} ])
            /\ ws' = IF s # 0 THEN SetWS(s, [ ws[s] EXCEPT !.cliEnd = CliEnd(ws[s], "cancel") ]) ELSE ws
            /\ UNCHANGED <<tun, now>>
       [] e.what = "advance" ->
            LET t == now + e.ms
                expired(r) == rp[r].cstart /\ rp[r].timeout > 0 /\ rp[r].t0 + rp[r].timeout <= t
            IN
            /\ now' = t
            /\ rp' = [ r \in DOMAIN rp |-> IF expired(r) THEN [ rp[r] EXCEPT !.localCause = @ \cup {4} ] ELSE rp[r] ]
            /\ ws' = [ s \in DOMAIN ws |->
                         IF ws[s].rpc \in DOMAIN rp /\ expired(ws[s].rpc)
                         THEN [ ws[s] EXCEPT !.cliEnd = CliEnd(ws[s], "deadline") ] ELSE ws[s] ]
            /\ UNCHANGED tun
       [] e.what \in {"close", "ctxcancel"} ->
            /\ tun' = [ tun EXCEPT !.causes = @ \cup {e.what} ]
            /\ ws' = AllLocal("tunnel")
            /\ UNCHANGED <<rp, now>>
       [] e.what = "shutdown" ->
            /\ tun' = [ tun EXCEPT !.shutdown = TRUE ]
            /\ UNCHANGED <<rp, ws, now>>
       [] e.what = "gstop.ret" ->
            /\ tun' = [ tun EXCEPT !.gstopRet = TRUE ]
            /\ UNCHANGED <<rp, ws, now>>
       [] e.what = "stop" ->
            /\ tun' = [ tun EXCEPT !.stopCalled = TRUE, !.causes = @ \cup {"stop"} ]
            /\ UNCHANGED <<rp, ws, now>>
       [] e.what = "stop.ret" ->
            /\ tun' = [ tun EXCEPT !.stopRet = TRUE ]
            /\ UNCHANGED <<rp, ws, now>>
       [] OTHER -> UNCHANGED <<rp, ws, tun, now>>
  /\ UNCHANGED <<tidx, cfg, wq, bad>>

TCar ==
  /\ Ev.ev = "car"
  /\ tun' = IF Ev.what \in {"fail", "ctxdone", "marshalfail"} THEN [ tun EXCEPT !.causes = @ \cup {Ev.what} ] ELSE tun
  /\ ws' = IF Ev.what \in {"fail", "ctxdone", "marshalfail"} THEN AllLocal("tunnel") ELSE ws
  /\ UNCHANGED <<tidx, cfg, wq, rp, bad, now>>

TTun ==
  /\ Ev.ev = "tun"
  /\ LET e == Ev IN
     tun' = CASE e.what = "started"   -> [ tun EXCEPT !.started = TRUE ]
              [] e.what = "startfail" -> [ tun EXCEPT !.startFail = TRUE, !.chErr = e.cls ]
              [] e.what = "chdone"    -> [ tun EXCEPT !.chdone = TRUE, !.chErr = e.cls ]
              [] e.what = "serveret"  -> [ tun EXCEPT !.serveRet = TRUE, !.serveCls = e.cls ]
              [] OTHER -> tun
  /\ ws' = IF Ev.what = "chdone" THEN AllLocal("tunnel") ELSE ws
  /\ UNCHANGED <<tidx, cfg, wq, rp, bad, now>>

TOpen ==
  /\ Ev.ev = "open"
  /\ cfg' = Ev
  /\ tun' = [ tun EXCEPT !.opened = TRUE ]
  /\ UNCHANGED <<tidx, wq, ws, rp, bad, now>>

TQuiesce ==
  /\ Ev.ev = "q"
  /\ q' = [ at |-> TRUE, final |-> Ev.final, blocked |-> Ev.blocked, h |-> Ev.h, parked |-> Ev.parked,
            ctab |-> Ev.ctab, stab |-> Ev.stab, nsrv |-> Ev.nsrv, qc2s |-> Ev.qc2s, qs2c |-> Ev.qs2c,
            g |-> Ev.g, chdone |-> Ev.chdone ]
  /\ tun' = IF tun.baseG = -1 /\ Ev.g >= 0 /\ tun.started /\ DOMAIN rp = {} /\ ~Ev.chdone
            THEN [ tun EXCEPT !.baseG = Ev.g ] ELSE tun
  /\ UNCHANGED <<tidx, cfg, wq, ws, rp, bad, now>>

TReset ==
  /\ Ev.ev = "reset"
  /\ tidx' = Ev.idx
  /\ cfg' = Cfg0 /\ wq' = [c2s |-> <<>>, s2c |-> <<>>]
  /\ ws' = [x \in {} |-> WS0] /\ rp' = [x \in {} |-> RP0] /\ tun' = Tun0 /\ bad' = {} /\ now' = 0

TSkip ==
  /\ Ev.ev \notin {"wire.send", "wire.recv", "op.start", "op.ret", "invoked", "ctl", "car", "tun", "open", "q", "reset"}
  /\ UNCHANGED <<tidx, cfg, wq, ws, rp, tun, bad, now>>

---------------------------------------------------------------------------
(* The property formulas.  Each is a state predicate over the observation  *)
(* state; the name prefix is the property id.                              *)

RPCs == DOMAIN rp
Sids == DOMAIN ws

IsPfx(a, b) == Len(a) <= Len(b) /\ \A i \in 1..Len(a) : a[i] = b[i]

\* ---- C01 -----------------------------------------------------------------
C01_SrvPrefix == \A r \in RPCs : IsPfx(rp[r].gotS, rp[r].sentC)
C01_CliPrefix == \A r \in RPCs : IsPfx(rp[r].gotC, rp[r].sentS \o
                    (IF rp[r].hResp >= 0 THEN << <<r, "s", Len(rp[r].sentS), rp[r].hResp>> >> ELSE <<>>))
C01_Intact    == \A r \in RPCs : rp[r].intactS /\ rp[r].intactC
\* handler saw end-of-stream => it obtained every message whose send had succeeded
C01_CompleteAtEOF == \A r \in RPCs : rp[r].sEOF => Len(rp[r].gotS) >= rp[r].okCatEOF
\* caller saw OK => it obtained every message the handler sent
C01_CompleteAtOK  == \A r \in RPCs : rp[r].cRes.cls = "eof" =>
                        Len(rp[r].gotC) = rp[r].okS + (IF rp[r].hResp >= 0 THEN 1 ELSE 0)

\* ---- C13 (wire conformance) ------------------------------------------------
BadHas(c) == \E x \in bad : x[1] = c
C13_SettingsFirst == ~BadHas("settings.not-first") /\ ~BadHas("settings.sid") /\ tun.settingsSent <= 1
C13_Framing == /\ ~BadHas("framing.envelope-inside-message") /\ ~BadHas("framing.len>size")
               /\ ~BadHas("framing.continuation-without-message") /\ ~BadHas("framing.overrun-of-size")
               /\ ~BadHas("unknown-frame")
C13_HeadersOnceBeforeData == ~BadHas("hdr.twice") /\ ~BadHas("hdr.after-message") /\ ~BadHas("msg.before-hdr")
C13_HalfCloseOnce == ~BadHas("half.twice")
C13_CancelOnce == ~BadHas("cancel.twice")
C13_NoDataAfterHalfClose == ~BadHas("data-after-half")
C13_AtMostOneClose == ~BadHas("close.twice") /\ ~BadHas("close.unknown-stream")
C13_CloseLastIfHandlerEnded == ~BadHas("after-close")

\* ---- C06 -------------------------------------------------------------------
C06_ChunkMax == ~BadHas("chunkmax")
\* un-credited bytes never exceed the advertised window (credit counts once it
\* has been delivered to the sender's endpoint)
C06_SenderWithinWindow ==
  \A s \in Sids :
     /\ (RealCli /\ ws[s].rev = 1) => ws[s].cBytes - ws[s].sWuD <= tun.winC2S
     /\ (RealSrv /\ ws[s].rev = 1) => ws[s].sBytes - ws[s].cWuD <= ws[s].win
\* credit granted never exceeds what was delivered, nor what the application
\* can have consumed: it asked for at most recv (+1 look-ahead) messages
Consumable(env, k) == SumSeq(Prefix(env, k))
C06_CreditBounded ==
  \A s \in Sids :
     LET r == ws[s].rpc
         R == RPof(r)
     IN /\ RealSrv => /\ SumSeq(ws[s].sWu) <= SumSeq(ws[s].cData)
                      /\ (r # 0 /\ RealCli) => SumSeq(ws[s].sWu) <= Consumable(ws[s].cEnv, R.recvS + 1)
        /\ RealCli => /\ SumSeq(ws[s].cWu) <= SumSeq(ws[s].sData)
                      /\ (r # 0 /\ RealSrv) => SumSeq(ws[s].cWu) <= Consumable(ws[s].sEnv, R.recvC + 1)

\* ---- C05 -------------------------------------------------------------------
\* every window update is exactly the length of a data frame the receiver took,
\* in order
C05_CreditExact ==
  \A s \in Sids :
     /\ RealSrv => IsPfx(ws[s].sWu, ws[s].cData)
     /\ RealCli => IsPfx(ws[s].cWu, ws[s].sData)

BlockedOps == { <<q.blocked[i][1], q.blocked[i][2], q.blocked[i][4]>> : i \in 1..Len(q.blocked) }

\* at a quiescent point a blocked send means the window is exhausted (or, with
\* a bounded carrier, that the carrier is full)
C05_BlockedOnlyWhenFull ==
  q.at => \A b \in BlockedOps :
     (b[3] = "send" /\ b[2] \in RPCs /\ rp[b[2]].sid \in Sids) =>
        LET s == rp[b[2]].sid IN
        IF b[1] = "c"
        THEN \/ ws[s].rev = 1 /\ ws[s].cBytes - ws[s].sWuD = tun.winC2S
             \/ cfg.cap > 0 /\ q.qc2s >= cfg.cap
        ELSE \/ ws[s].rev = 1 /\ ws[s].sBytes - ws[s].cWuD = ws[s].win
             \/ cfg.cap > 0 /\ q.qs2c >= cfg.cap

\* ---- C08 -------------------------------------------------------------------
C08_IdsIncreasing == ~BadHas("ids.increasing") /\ ~BadHas("ids.dup")
C08_NewFirst == ~BadHas("newfirst")
C08_AtMostOneInvocation == \A r \in RPCs : rp[r].inv <= 1
C08_RightHandler ==
  \A r \in RPCs : (rp[r].inv > 0 /\ rp[r].cstart) => rp[r].invShape = rp[r].shape

\* ---- C11 -------------------------------------------------------------------
C11_Revision == ~BadHas("neg.rev")
C11_LegacyClean == ~BadHas("legacy.wu") /\ ~BadHas("legacy.settings")

\* ---- C03 / C04 ------------------------------------------------------------------
\* the tunnel ends only for a tunnel-level cause
TunnelCause == tun.causes # {}
C03_TunnelSurvives ==
  (RealCli /\ RealSrv) => ((tun.chdone \/ tun.serveRet \/ tun.startFail) => TunnelCause)

---------------------------------------------------------------------------
Formulas == [
  C01_SrvPrefix |-> C01_SrvPrefix, C01_CliPrefix |-> C01_CliPrefix, C01_Intact |-> C01_Intact,
  C01_CompleteAtEOF |-> C01_CompleteAtEOF, C01_CompleteAtOK |-> C01_CompleteAtOK,
  C13_SettingsFirst |-> C13_SettingsFirst, C13_Framing |-> C13_Framing,
  C13_HeadersOnceBeforeData |-> C13_HeadersOnceBeforeData, C13_HalfCloseOnce |-> C13_HalfCloseOnce,
  C13_CancelOnce |-> C13_CancelOnce, C13_NoDataAfterHalfClose |-> C13_NoDataAfterHalfClose,
  C13_AtMostOneClose |-> C13_AtMostOneClose, C13_CloseLastIfHandlerEnded |-> C13_CloseLastIfHandlerEnded,
  C06_ChunkMax |-> C06_ChunkMax, C06_SenderWithinWindow |-> C06_SenderWithinWindow,
  C06_CreditBounded |-> C06_CreditBounded,
  C05_CreditExact |-> C05_CreditExact, C05_BlockedOnlyWhenFull |-> C05_BlockedOnlyWhenFull,
  C08_IdsIncreasing |-> C08_IdsIncreasing, C08_NewFirst |-> C08_NewFirst,
  C08_AtMostOneInvocation |-> C08_AtMostOneInvocation, C08_RightHandler |-> C08_RightHandler,
  C11_Revision |-> C11_Revision, C11_LegacyClean |-> C11_LegacyClean,
  C03_TunnelSurvives |-> C03_TunnelSurvives
]

Violated == { n \in DOMAIN Formulas : ~Formulas[n] }

\* record the first position per trace and formula
Judge ==
  viol' = viol \cup { <<tidx, n, l - 1>> : n \in { m \in Violated : ~\E v \in viol : v[1] = tidx /\ v[2] = m } }

---------------------------------------------------------------------------
TEnd ==
  /\ Ev.ev = "end"
  /\ JsonSerialize(OutFile, [ violations |-> SetToSeq(viol \cup { <<tidx, n, l - 1>> : n \in { m \in Violated : ~\E v \in viol : v[1] = tidx /\ v[2] = m } }),
                              lines |-> l ])
  /\ UNCHANGED <<tidx, cfg, wq, ws, rp, tun, bad, now, q, viol>>

Next ==
  /\ l <= Len(Trace)
  /\ l' = l + 1
  /\ \/ TEnd
     \/ /\ Ev.ev # "end"
        /\ Judge
        /\ IF Ev.ev = "q" THEN TRUE ELSE q' = [q EXCEPT !.at = FALSE]
        /\ \/ TWireSend \/ TWireRecv \/ TOpStart \/ TOpRet \/ TInvoked \/ TCtl \/ TCar \/ TTun \/ TOpen
           \/ TQuiesce
           \/ TReset
           \/ TSkip

Spec == Init /\ [][Next]_vars

=============================================================================
