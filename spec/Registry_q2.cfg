SPECIFICATION Spec
CONSTANTS
  Tunnels <- T2
  Keys <- K2
  KeyOf <- KeyOf2
  MaxPicks = 2
CHECK_DEADLOCK FALSE
INVARIANTS C12_RegistryMatches C12_NoDuplicates C12_ReadyIff C12_Callbacks
PROPERTIES C12_EventuallyRemoved
