SPECIFICATION Spec
CONSTANTS
  W0 = 2
  CH = 2
  Msg = 4
  Credits <- Cr_a
  MayCancel = TRUE
CHECK_DEADLOCK FALSE
