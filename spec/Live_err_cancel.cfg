SPECIFICATION LiveSpec
CONSTANTS
  W = 4
  CH = 2
  RPCs <- One
  CScript <- C_err
  SScript <- S_err
  Faults <- CancelOnly
  MaxFaults = 1
  Stepped = FALSE
  Dir = "fwd"
CHECK_DEADLOCK FALSE
PROPERTIES
  AllCallerOpsReturn
  HandlersEnd
