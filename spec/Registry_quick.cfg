SPECIFICATION Spec
CONSTANTS
  Tunnels <- T3
  Keys <- K2
  KeyOf <- KeyOf3
  MaxPicks = 1
CHECK_DEADLOCK FALSE
INVARIANTS C12_RegistryMatches C12_NoDuplicates C12_ReadyIff C12_Callbacks
PROPERTIES C12_EventuallyRemoved
