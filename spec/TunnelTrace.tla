----------------------------- MODULE TunnelTrace -----------------------------
(***************************************************************************)
(* Strict conformance of the real library to the detailed model            *)
(* (Tunnel.tla) on replayed model schedules.                               *)
(*                                                                         *)
(* Input: the recording of one schedule executed step by step against the  *)
(* real code, reduced to its synchronisation points:                       *)
(*   {"ev":"drv","label":[kind, rpc, arg, n]}   a driver step (as generated *)
(*                                               by MC_TunnelGen)          *)
(*   {"ev":"q", blocked, h, ctab, stab, nsrv, qc2s, qs2c, chdone, proj}    *)
(*        the quiescent point the real code reached after it, with the     *)
(*        projection ObsProj of the observation state computed from the    *)
(*        real event log by TunnelMonProj                                  *)
(* TLC searches for a behaviour of the model that takes exactly these      *)
(* driver steps and whose quiescent points (which operations are blocked,  *)
(* handler contexts, stream tables, carrier queues, and the whole          *)
(* projected observation state: per-RPC counts and outcomes, per-stream    *)
(* wire state) EQUAL the recorded ones.  The model's internal actions are  *)
(* not logged: TLC explores their interleavings between two sync points    *)
(* (races make several quiescent states possible; the real one must be     *)
(* among them).                                                            *)
(*                                                                         *)
(* Acceptance: the invariant NotAccepted is VIOLATED (a state with the     *)
(* whole trace consumed is reachable).  If TLC finishes without, no model  *)
(* behaviour explains the recording; MAXL tells how far it got.            *)
(***************************************************************************)
EXTENDS MC_Tunnel, Json, IOUtils

Trace == ndJsonDeserialize(IOEnv.VERIF_TRACE)

VARIABLE l
tvars == <<vars, l>>

TInit == Init /\ l = 1

AsSet(sq) == { sq[i] : i \in 1..Len(sq) }
QMatch(e) ==
  LET m == QRec IN
  /\ AsSet(e.blocked) = AsSet(m.blocked) /\ AsSet(e.h) = AsSet(m.h)
  /\ e.ctab = m.ctab /\ e.stab = m.stab /\ e.nsrv = m.nsrv
  /\ e.qc2s = m.qc2s /\ e.qs2c = m.qs2c /\ e.chdone = m.chdone
  /\ e.proj = ObsProj

Inr(A) == A /\ UNCHANGED l
Drv(A, label) == /\ DrvOK /\ l <= Len(Trace) /\ Trace[l].ev = "drv"
                 /\ A /\ Trace[l].label = label /\ l' = l + 1
TQuiesce == /\ l <= Len(Trace) /\ Trace[l].ev = "q" /\ ~InternalEnabled /\ ~q.at /\ QMatch(Trace[l])
            /\ Quiesce /\ l' = l + 1

\* debugging aid: print what the model has to offer at the sync point that was rejected
TDebug == /\ "VERIF_DEBUGL" \in DOMAIN IOEnv /\ ToString(l) = IOEnv.VERIF_DEBUGL
          /\ ~InternalEnabled /\ ~q.at
          /\ PrintT(<<"CAND", QRec, ObsProj>>) /\ FALSE /\ UNCHANGED tvars

TNext ==
  \/ TDebug
  \/ Inr(\E r \in RPCs : CliSkipOp(r) \/ SrvSkipOp(r) \/ CliAlloc(r) \/ CliSendNew(r) \/ CliNewRet(r) \/ CliNewFail(r) \/ CliSendNewFail(r)
                       \/ CliReserve(r) \/ CliEmit(r) \/ CliEmitFail(r) \/ CliSendAbort(r) \/ CliSendRet(r) \/ CliBadSendRet(r) \/ CliHalf(r) \/ CliHalfRet(r)
                       \/ CliDequeue(r) \/ CliCredit(r) \/ CliRecvMsgRet(r) \/ CliRecvEnd(r) \/ CliFinStep(r) \/ CliWatchFire(r)
                       \/ CliCancelCAS(r) \/ CliCancelRcv(r) \/ CliEmitCancel(r) \/ CliHeaderRet(r) \/ CliTrailerRet(r) \/ SrvMetaDo(r) \/ SrvMetaRet(r) \/ HandlerStart(r) \/ SrvEmitReject(r)
                       \/ SrvEmitHdr(r) \/ SrvReserve(r) \/ SrvEmit(r) \/ SrvSendAbort(r) \/ SrvSendRet(r) \/ SrvRecvCtx(r)
                       \/ SrvDequeue(r) \/ SrvCredit(r) \/ SrvRecvMsgRet(r) \/ SrvRecvEnd(r) \/ SrvFinStep(r, "L")
                       \/ SrvFinStep(r, "H") \/ HandlerRetDone(r) \/ SrvEmitClose(r) \/ SrvWatchFire(r))
  \/ Inr(CliCloseDo) \/ Inr(SrvServeExit) \/ Inr(CliFailDo) \/ Inr(SrvFailExit) \/ Inr(RevHandlerReturn)
  \/ TQuiesce
  \/ \E r \in RPCs : Drv(CliOpStart(r), <<"cop", r, COp(r).op, COp(r).n>>)
  \/ \E r \in RPCs : Drv(SrvOpStart(r), <<"sop", r, SOp(r).op, IF SOp(r).op = "ret" THEN SOp(r).code ELSE SOp(r).n>>)
  \/ \E r \in RPCs : Drv(Cancel(r), <<"cancel", r, "", 0>>)
  \/ Drv(CliDeliver, <<"deliver", 0, "s2c", 0>>)
  \/ Drv(SrvDeliver, <<"deliver", 0, "c2s", 0>>)
  \/ Drv(CtlClose, <<"close", 0, "", 0>>)
  \/ Drv(Shutdown, <<"shutdown", 0, "", 0>>)
  \/ Drv(CarFail, <<"carfail", 0, "", 0>>)

TSpec == TInit /\ [][TNext]_tvars

NotAccepted == l <= Len(Trace)

\* how far the best candidate behaviour got (register 7; needs -workers 1)
ASSUME TLCSet(7, 0)
Track == IF l > TLCGet(7) THEN TLCSet(7, l) ELSE TRUE
Post == PrintT(<<"MAXL", TLCGet(7), Len(Trace)>>)
=============================================================================
