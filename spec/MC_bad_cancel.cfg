SPECIFICATION Spec
CONSTANTS
  W = 4
  CH = 2
  RPCs <- One
  CScript <- C_bad
  SScript <- S_bad
  Faults <- CancelOnly
  MaxFaults = 1
  Stepped = FALSE
  Dir = "fwd"
CHECK_DEADLOCK FALSE
INVARIANTS
  TypeOK
  ConservationC2S
  ReceiverBounded
  NoOverrun
  C01_CliPrefix
  C01_CompleteAtEOF
  C01_CompleteAtOK
  C01_Intact
  C01_SrvPrefix
  C02_CloseCarriesHandlerStatus
  C02_EncodableMetadata
  C02_HeadersByFirstMsg
  C02_HeadersExact
  C02_RequestMD
  C02_ResultOnce
  C02_StatusExact
  C02_TrailersAtTerminal
  C03_BystandersComplete
  C03_TunnelSurvives
  C04_CallsEnd
  C04_ClientObserves
  C04_ErrNilIffClean
  C04_ErrStableAtDone
  C04_FailFast
  C04_HandlersReleased
  C04_ServerObserves
  C05_BlockedOnlyWhenFull
  C05_CreditExact
  C06_ChunkMax
  C06_CreditBounded
  C06_SenderWithinWindow
  C07_CallerEndsAlone
  C07_HandlerReleased
  C07_OneLegalOutcome
  C07_NoMixture
  C08_AtMostOneInvocation
  C08_ExactlyOneWhenCompleted
  C08_IdsIncreasing
  C08_NewFirst
  C08_RightHandler
  C10_GracefulStopReturns
  C10_RefusedAfterShutdown
  C10_StopMeansStopped
  C11_LegacyClean
  C11_Revision
  C13_AtMostOneClose
  C13_CancelOnce
  C13_CloseLastIfHandlerEnded
  C13_Framing
  C13_HalfCloseOnce
  C13_HeadersOnceBeforeData
  C13_NoDataAfterHalfClose
  C13_SettingsFirst
  C14_ClientTableExact
  C14_GoroutinesBaseline
  C14_NothingAfterTunnel
  C14_ServerTableExact
  C16_NoSuccessOnWrongCount
  C16_OneRequestOnly
  C16_SecondSendRefused
