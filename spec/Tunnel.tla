-------------------------------- MODULE Tunnel --------------------------------
(***************************************************************************)
(* Detailed model of one grpctunnel tunnel with flow control negotiated:   *)
(* tunnel client (tunnelChannel / tunnelClientStream), tunnel server        *)
(* (tunnelServer / tunnelServerStream), the carrier stream between them,    *)
(* and scripted applications on both ends of every RPC.                     *)
(*                                                                         *)
(* One action per critical section / linearization point of the Go code;   *)
(* multi-step procedures (finishStream on both ends, cancelStream, the     *)
(* chunk loop of send, dequeue-then-credit, the asynchronous cancel /      *)
(* close / reject senders, the context watchers) are several actions, so   *)
(* that TLC explores every interleaving of their sub-steps with the other  *)
(* goroutines.                                                             *)
(*                                                                         *)
(* Every action is conjoined with the transition of the observation        *)
(* automaton (TunnelObs) for the event the real code would log at that     *)
(* point, so the SAME property formulas Cxx_* that judge recorded           *)
(* executions of the real library are evaluated on every reachable state   *)
(* of the model.                                                           *)
(*                                                                         *)
(* Code references are to the pinned tree plus the fix: commits.           *)
(***************************************************************************)
EXTENDS TunnelObs

CONSTANTS RPCs,      \* set of RPC numbers 1..N; stream ids are allocated in order of creation
          CScript,   \* [RPCs -> Seq(op)]: caller application script, ops [op |-> "new"|"send"|"half"|"recv", n |-> size]
          SScript,   \* [RPCs -> Seq(op)]: handler script, ops [op |-> "recv"|"send"|"ret", n |-> size, code |-> status code]
          Faults,    \* subset of {"cancel", "close", "shutdown"}: enabled driver faults
          MaxFaults, \* bound on the number of fault actions in a behaviour
          Stepped,   \* TRUE: internal actions are urgent (run to quiescence between driver actions), as the harness executes
          Dir        \* "fwd": the tunnel client is the network client; "rev": the tunnel client is the network SERVER
                     \* (a reverse tunnel): its Close makes the opening RPC's handler return, after which gRPC
                     \* refuses (io.EOF) and discards whatever the network client - the tunnel server - still sends

VARIABLES c2s, s2c,  \* carrier: frames in flight per direction
          car,       \* carrier status: [closeSend, srvGone]
          cli,       \* tunnel client: [up, lastID, creating, busy]
          cs,        \* [RPCs -> client stream state]
          srv,       \* tunnel server: [up, lastSeen, stopping, busyL]
          ss,        \* [RPCs -> server stream state]
          app,       \* [RPCs -> [c |-> [pc, busy], s |-> [pc, busy]]]: script positions and the op in progress
          nf         \* number of fault actions so far

mvars == <<c2s, s2c, car, cli, cs, srv, ss, app, nf>>
vars == <<mvars, ovars>>

---------------------------------------------------------------------------
(* Frames and events                                                       *)

NoMid == <<0, "", 0>>
Frame(sid, kind, size, len, code, rpc, mid) ==
  [sid |-> sid, kind |-> kind, size |-> size, len |-> len, code |-> code, rpc |-> rpc, mid |-> mid, md |-> MD0]
\* headers / close frames carry metadata
FrameMD(sid, kind, code, md) == [Frame(sid, kind, 0, 0, code, 0, NoMid) EXCEPT !.md = md]

\* the metadata values scripts can use (index = the n field of a sethdr / sendhdr / settrl op); the harness
\* has the same table (lib/vlib/modelgen.py)
MDTab == << [k \in {"_", "k1"} |-> IF k = "_" THEN <<>> ELSE <<"v1">>],
            [k \in {"_", "k1", "k2"} |-> CASE k = "_" -> <<>> [] k = "k1" -> <<"v2">> [] OTHER -> <<"a", "b">>],
            [k \in {"_", "t1"} |-> IF k = "_" THEN <<>> ELSE <<"tv1">>] >>
MetaOps == {"sethdr", "sendhdr", "settrl"}

EvWire(what, dir, f) ==
  [ev |-> what, dir |-> dir, sid |-> f.sid, kind |-> f.kind, size |-> f.size, len |-> f.len, rpc |-> f.rpc,
   rev |-> 1, win |-> W, method |-> "m", mclass |-> "ok", mshape |-> "bidi", revs |-> <<0, 1>>, md |-> f.md, code |-> f.code, msg |-> "", det |-> "0"]

EvOpStart(end, r, op, idx, size, code) ==
  [ev |-> "op.start", end |-> end, rpc |-> r, act |-> "m", op |-> op, shape |-> "bidi", timeout |-> 0, method |-> "m",
   md |-> MD0, opts |-> <<>>, idx |-> idx, size |-> size, n |-> size, code |-> code, msg |-> "", det |-> "0"]

EvOpRet(end, r, op, cls, code, idx) ==
  [ev |-> "op.ret", end |-> end, rpc |-> r, act |-> "m", op |-> op, cls |-> cls, code |-> code, msg |-> "", det |-> "0", idx |-> idx]

\* a successful receive: the identity the application recognises in the payload
EvOpRetMsg(end, r, mid, size, intact) ==
  [ev |-> "op.ret", end |-> end, rpc |-> r, act |-> "m", op |-> "recv", cls |-> "ok", code |-> 0, msg |-> "", det |-> "0", idx |-> 0,
   m |-> [rpc |-> mid[1], side |-> mid[2], idx |-> mid[3], size |-> size, intact |-> intact]]

\* a terminal receive result at the caller, with the trailers read right afterwards
EvOpRetTerminal(r, cls, code, trl) ==
  [ev |-> "op.ret", end |-> "c", rpc |-> r, act |-> "m", op |-> "recv", cls |-> cls, code |-> code, msg |-> "", det |-> "0", idx |-> 0,
   trl |-> trl]

\* Trailers are abstracted: every close frame carries the same trailers (MD0); what the
\* caller reads before they are published is something else
Unpublished == [k \in {"_", "unpublished"} |-> <<>>]

---------------------------------------------------------------------------
(* Initial state                                                           *)

CS0 == [ id |-> 0, ctx |-> "live", done |-> "", doneCode |-> 0, fin |-> 0, finWho |-> "", intable |-> FALSE,
         published |-> FALSE, hdr |-> FALSE, hdrMD |-> MD0, trl |-> MD0,
         snd |-> "idle", sleft |-> 0, ssize |-> 0, sfirst |-> TRUE, sres |-> 0, swin |-> W, nsent |-> 0, half |-> FALSE,
         rq |-> <<>>, rwin |-> W, rclosed |-> FALSE, rcancelled |-> FALSE, credit |-> 0,
         need |-> -1, msize |-> 0, mid |-> NoMid, mok |-> TRUE, ready |-> FALSE, ngot |-> 0,
         watch |-> "none", wstep |-> 0, cancelOwed |-> FALSE, sfailed |-> FALSE ]

SS0 == [ st |-> "none", ctx |-> "live", half |-> "", closed |-> FALSE, sentHdr |-> FALSE,
         hdrs |-> MD0, trls |-> MD0, snapH |-> MD0, snapT |-> MD0, meta |-> 0,
         h |-> "none", finL |-> 0, finH |-> 0, finLcode |-> 0, retCode |-> 0,
         snd |-> "idle", sleft |-> 0, ssize |-> 0, sfirst |-> TRUE, sres |-> 0, swin |-> W, nsent |-> 0,
         rq |-> <<>>, rwin |-> W, rclosed |-> FALSE, rcancelled |-> FALSE, credit |-> 0,
         need |-> -1, msize |-> 0, mid |-> NoMid, mok |-> TRUE, ready |-> FALSE, ngot |-> 0,
         watch |-> "none", closeOwed |-> 0, closeCode |-> 0, rejectOwed |-> 0, sfailed |-> FALSE ]

App0 == [ c |-> [pc |-> 1, busy |-> ""], s |-> [pc |-> 1, busy |-> ""] ]

MInit ==
  /\ c2s = <<>> /\ s2c = <<>>
  /\ car = [closeSend |-> FALSE, failed |-> FALSE]
  /\ cli = [up |-> TRUE, lastID |-> 0, creating |-> 0, busy |-> 0, closing |-> FALSE, err |-> "none"]
  /\ cs = [r \in RPCs |-> CS0]
  /\ srv = [up |-> TRUE, lastSeen |-> 0, stopping |-> FALSE, busy |-> 0]
  /\ ss = [r \in RPCs |-> SS0]
  /\ app = [r \in RPCs |-> App0]
  /\ nf = 0

Init ==
  /\ MInit
  /\ OInit
  \* the tunnel is open and started (the settings exchange is not modelled here)
  /\ TRUE

RpcOfSid(s) == IF \E r \in RPCs : cs[r].id = s THEN CHOOSE r \in RPCs : cs[r].id = s ELSE 0

COp(r) == CScript[r][app[r].c.pc]
SOp(r) == SScript[r][app[r].s.pc]
CBusy(r) == app[r].c.busy
SBusy(r) == app[r].s.busy

SetC(r, rec) == cs' = [cs EXCEPT ![r] = rec]
SetS(r, rec) == ss' = [ss EXCEPT ![r] = rec]
CDoneOp(r) == app' = [app EXCEPT ![r].c = [pc |-> @.pc + 1, busy |-> ""]]
SDoneOp(r) == app' = [app EXCEPT ![r].s = [pc |-> @.pc + 1, busy |-> ""]]

Min3(a, b, c) == Min2(a, Min2(b, c))

CtxCode(c) == IF c = "deadline" THEN 4 ELSE 1

---------------------------------------------------------------------------
(* Caller application and tunnel client (tunnel_client.go)                 *)

\* the application starts its next scripted op  [driver action]
CliOpStart(r) ==
  /\ CBusy(r) = "" /\ app[r].c.pc <= Len(CScript[r])
  /\ LET o == COp(r) IN
     /\ o.op # "new" => cs[r].id # 0
     \* a legal application does not go on sending after a send has failed
     /\ o.op \in {"send", "half", "badsend"} => ~cs[r].sfailed
     /\ app' = [app EXCEPT ![r].c.busy = o.op]
     /\ CASE o.op = "send" ->
             /\ SetC(r, [cs[r] EXCEPT !.snd = "need", !.sleft = o.n, !.ssize = o.n, !.sfirst = TRUE, !.nsent = @ + 1])
             /\ OOpStart(EvOpStart("c", r, "send", cs[r].nsent, o.n, 0))
          [] o.op = "badsend" ->
             \* SendMsg with a message that cannot be encoded
             /\ UNCHANGED cs
             /\ OOpStart(EvOpStart("c", r, "send", cs[r].nsent, 0, 0) @@ [bad |-> TRUE])
          [] OTHER ->
             /\ UNCHANGED cs
             /\ OOpStart(EvOpStart("c", r, o.op, 0, 0, 0))
  /\ UNCHANGED <<c2s, s2c, car, cli, srv, ss, nf>>

\* ... after a failed send the remaining send-side ops of the script are skipped
CliSkipOp(r) ==
  /\ CBusy(r) = "" /\ app[r].c.pc <= Len(CScript[r]) /\ COp(r).op \in {"send", "half", "badsend"} /\ cs[r].sfailed
  /\ app' = [app EXCEPT ![r].c.pc = @ + 1]
  /\ OSkip
  /\ UNCHANGED <<c2s, s2c, car, cli, cs, srv, ss, nf>>

SrvSkipOp(r) ==
  /\ ss[r].h = "running" /\ SBusy(r) = "" /\ app[r].s.pc <= Len(SScript[r]) /\ SOp(r).op = "send" /\ ss[r].sfailed
  /\ app' = [app EXCEPT ![r].s.pc = @ + 1]
  /\ OSkip
  /\ UNCHANGED <<c2s, s2c, car, cli, cs, srv, ss, nf>>

\* the tunnel client can still put frames on the carrier (after the transport failed every Send returns EOF)
\* (a reverse tunnel's client is the network SERVER: after its Close it can still send - the cancel notices of
\* its RPCs race with the opening RPC's handler returning - until that handler has returned)
C2SUp == ~car.failed /\ (IF Dir = "fwd" THEN cli.up ELSE ~car.closeSend)

\* newStream: allocateStream under streamCreation (:290-343): id allocation and table insert
CliAlloc(r) ==
  /\ CBusy(r) = "new" /\ cs[r].id = 0 /\ cli.creating = 0 /\ cli.up
  /\ cli' = [cli EXCEPT !.lastID = @ + 1, !.creating = r]
  /\ SetC(r, [cs[r] EXCEPT !.id = cli.lastID + 1, !.intable = TRUE])
  /\ OSkip
  /\ UNCHANGED <<c2s, s2c, car, srv, ss, app, nf>>

\* ... the new_stream frame is sent while the creation lock is still held; the watcher is spawned
CliSendNew(r) ==
  /\ CBusy(r) = "new" /\ cli.creating = r /\ C2SUp
  /\ c2s' = Append(c2s, Frame(cs[r].id, "new", 0, 0, 0, r, NoMid))
  /\ cli' = [cli EXCEPT !.creating = 0]
  /\ SetC(r, [cs[r] EXCEPT !.watch = "wait", !.snd = "idle"])
  /\ OWireSend(EvWire("wire.send", "c2s", Frame(cs[r].id, "new", 0, 0, 0, r, NoMid)))
  /\ UNCHANGED <<s2c, car, srv, ss, app, nf>>

\* ... the send of the new_stream frame fails (the channel was closed or the transport failed meanwhile):
\* the stream is removed again and NewStream returns the error (:329-332)
CliSendNewFail(r) ==
  /\ CBusy(r) = "new" /\ cli.creating = r /\ ~C2SUp
  /\ cli' = [cli EXCEPT !.creating = 0]
  /\ SetC(r, [cs[r] EXCEPT !.intable = FALSE])
  /\ app' = [app EXCEPT ![r].c = [pc |-> Len(CScript[r]) + 1, busy |-> ""]]
  /\ OOpRet(EvOpRet("c", r, "new", "err", -1, 0))
  /\ UNCHANGED <<c2s, s2c, car, srv, ss, nf>>

CliNewRet(r) ==
  /\ CBusy(r) = "new" /\ cs[r].id # 0 /\ cli.creating # r
  /\ CDoneOp(r)
  /\ OOpRet(EvOpRet("c", r, "new", "ok", 0, 0))
  /\ UNCHANGED <<c2s, s2c, car, cli, cs, srv, ss, nf>>

\* the channel is finished: NewStream fails at once
CliNewFail(r) ==
  /\ CBusy(r) = "new" /\ cs[r].id = 0 /\ ~cli.up
  /\ app' = [app EXCEPT ![r].c = [pc |-> Len(CScript[r]) + 1, busy |-> ""]]
  /\ OOpRet(EvOpRet("c", r, "new", "err", -1, 0))
  /\ UNCHANGED <<c2s, s2c, car, cli, cs, srv, ss, nf>>

\* defaultSender.send, per chunk: CAS-reserve min(window, rest, CH) ... (flow_control.go:73-117)
CliReserve(r) ==
  /\ cs[r].snd = "need" /\ cs[r].swin > 0
  /\ LET k == Min3(cs[r].swin, cs[r].sleft, CH) IN
     SetC(r, [cs[r] EXCEPT !.swin = @ - k, !.sres = k, !.snd = "res"])
  /\ OSkip
  /\ UNCHANGED <<c2s, s2c, car, cli, srv, ss, app, nf>>

\* ... then emit request_message{size,data} or more_request_data
CliEmit(r) ==
  /\ cs[r].snd = "res" /\ C2SUp
  /\ LET c == cs[r]
         f == Frame(c.id, IF c.sfirst THEN "msg" ELSE "more", IF c.sfirst THEN c.ssize ELSE 0, c.sres, 0, 0,
                    <<r, "c", c.nsent - 1>>)
     IN /\ c2s' = Append(c2s, f)
        /\ SetC(r, [c EXCEPT !.sleft = @ - c.sres, !.sres = 0, !.sfirst = FALSE,
                             !.snd = IF c.sleft - c.sres = 0 THEN "done" ELSE "need"])
        /\ OWireSend(EvWire("wire.send", "c2s", f))
  /\ UNCHANGED <<s2c, car, cli, srv, ss, app, nf>>

\* ... the channel is closed (CloseSend was called / the stream's context ended): the carrier refuses the frame
CliEmitFail(r) ==
  /\ cs[r].snd = "res" /\ ~C2SUp
  /\ SetC(r, [cs[r] EXCEPT !.snd = "idle", !.sfailed = TRUE, !.sres = 0])
  /\ CDoneOp(r)
  /\ OOpRet(EvOpRet("c", r, "send", "err", 1, cs[r].nsent - 1))
  /\ UNCHANGED <<c2s, s2c, car, cli, srv, ss, nf>>

\* ... window exhausted and the stream's context is done: give up
CliSendAbort(r) ==
  /\ cs[r].snd = "need" /\ cs[r].swin = 0 /\ cs[r].ctx # "live"
  /\ SetC(r, [cs[r] EXCEPT !.snd = "idle", !.sfailed = TRUE])
  /\ CDoneOp(r)
  /\ OOpRet(EvOpRet("c", r, "send", "err", CtxCode(cs[r].ctx), cs[r].nsent - 1))
  /\ UNCHANGED <<c2s, s2c, car, cli, srv, ss, nf>>

CliSendRet(r) ==
  /\ CBusy(r) = "send" /\ cs[r].snd = "done"
  /\ SetC(r, [cs[r] EXCEPT !.snd = "idle"])
  /\ CDoneOp(r)
  /\ OOpRet(EvOpRet("c", r, "send", "ok", 0, cs[r].nsent - 1))
  /\ UNCHANGED <<c2s, s2c, car, cli, srv, ss, nf>>

\* SendMsg with a message that cannot be encoded (proto.Marshal fails): refused with the encoder's error, nothing is
\* sent and nothing about the stream changes - it stays usable
CliBadSendRet(r) ==
  /\ CBusy(r) = "badsend"
  /\ CDoneOp(r)
  /\ OOpRet(EvOpRet("c", r, "send", "err", -1, cs[r].nsent))
  /\ UNCHANGED <<c2s, s2c, car, cli, cs, srv, ss, nf>>

\* CloseSend (:646-667): refused once the stream is done or already half-closed
CliHalf(r) ==
  /\ CBusy(r) = "half" /\ ~cs[r].published /\ ~cs[r].half /\ C2SUp
  /\ c2s' = Append(c2s, Frame(cs[r].id, "half", 0, 0, 0, 0, NoMid))
  /\ SetC(r, [cs[r] EXCEPT !.half = TRUE])
  /\ OWireSend(EvWire("wire.send", "c2s", Frame(cs[r].id, "half", 0, 0, 0, 0, NoMid)))
  /\ UNCHANGED <<s2c, car, cli, srv, ss, app, nf>>

CliHalfRet(r) ==
  /\ CBusy(r) = "half" /\ (cs[r].half \/ cs[r].published \/ ~C2SUp)
  /\ CDoneOp(r)
  /\ OOpRet(EvOpRet("c", r, "half", IF cs[r].half THEN "ok" ELSE "err", IF cs[r].half THEN 0 ELSE -1, 0))
  /\ UNCHANGED <<c2s, s2c, car, cli, cs, srv, ss, nf>>

\* RecvMsg: dequeue one frame under the receiver lock (flow_control.go:192-221) and reassemble (:735-784)
Reassemble(c, f) ==
  IF f.kind = "msg"
  THEN [c EXCEPT !.need = f.size - f.len, !.msize = f.size, !.mid = f.mid, !.mok = TRUE, !.ready = (f.size = f.len)]
  ELSE [c EXCEPT !.need = @ - f.len, !.mok = @ /\ (f.mid = c.mid), !.ready = (c.need - f.len = 0)]

CliDequeue(r) ==
  /\ CBusy(r) = "recv" /\ ~cs[r].ready /\ cs[r].credit = 0 /\ ~cs[r].rcancelled /\ cs[r].rq # <<>>
  /\ LET f == Head(cs[r].rq)
         c1 == [cs[r] EXCEPT !.rq = Tail(@), !.rwin = @ + f.len, !.credit = f.len]
     IN SetC(r, Reassemble(c1, f))
  /\ OSkip
  /\ UNCHANGED <<c2s, s2c, car, cli, srv, ss, app, nf>>

\* ... then, with the lock released, send the window update unless the stream is done (:443-454)
CliCredit(r) ==
  /\ cs[r].credit > 0
  /\ IF cs[r].done # "" \/ ~C2SUp
     THEN /\ OSkip /\ UNCHANGED c2s
     ELSE /\ c2s' = Append(c2s, Frame(cs[r].id, "wu", 0, cs[r].credit, 0, 0, NoMid))
          /\ OWireSend(EvWire("wire.send", "c2s", Frame(cs[r].id, "wu", 0, cs[r].credit, 0, 0, NoMid)))
  /\ SetC(r, [cs[r] EXCEPT !.credit = 0])
  /\ UNCHANGED <<s2c, car, cli, srv, ss, app, nf>>

CliRecvMsgRet(r) ==
  /\ CBusy(r) = "recv" /\ cs[r].ready /\ cs[r].credit = 0
  /\ SetC(r, [cs[r] EXCEPT !.ready = FALSE, !.need = -1, !.ngot = @ + 1])
  /\ CDoneOp(r)
  /\ OOpRet(EvOpRetMsg("c", r, cs[r].mid, cs[r].msize, cs[r].mok))
  /\ UNCHANGED <<c2s, s2c, car, cli, srv, ss, nf>>

\* ... queue empty and receiver closed, or receiver cancelled: the terminal result; the
\* application reads the trailers right afterwards (published or not!)
CliRecvEnd(r) ==
  /\ CBusy(r) = "recv" /\ ~cs[r].ready /\ cs[r].credit = 0
  /\ cs[r].rcancelled \/ (cs[r].rq = <<>> /\ cs[r].rclosed)
  /\ CDoneOp(r)
  /\ UNCHANGED cs
  /\ OOpRet(EvOpRetTerminal(r, IF cs[r].done = "eof" THEN "eof" ELSE "err", cs[r].doneCode,
                           IF ~cs[r].published /\ cs[r].done \in {"eof", "status"} THEN Unpublished
                           ELSE IF cs[r].done \in {"eof", "status"} THEN cs[r].trl ELSE MD0))
  /\ UNCHANGED <<c2s, s2c, car, cli, srv, ss, nf>>

\* Header() (:647-667): waits for the headers, the end of the stream, or its context; Trailer() does not wait
CliHeaderRet(r) ==
  /\ CBusy(r) = "header" /\ (cs[r].hdr \/ cs[r].published \/ cs[r].ctx # "live")
  /\ CDoneOp(r)
  /\ UNCHANGED cs
  /\ LET ok == cs[r].hdr \/ cs[r].published
     IN OOpRet([ev |-> "op.ret", end |-> "c", rpc |-> r, act |-> "m", op |-> "header", cls |-> IF ok THEN "ok" ELSE "err",
                code |-> IF ok THEN 0 ELSE 1, msg |-> "", det |-> "0", idx |-> 0, md |-> IF cs[r].hdr THEN cs[r].hdrMD ELSE MD0])
  /\ UNCHANGED <<c2s, s2c, car, cli, srv, ss, nf>>

CliTrailerRet(r) ==
  /\ CBusy(r) = "trailer"
  /\ CDoneOp(r)
  /\ UNCHANGED cs
  /\ OOpRet([ev |-> "op.ret", end |-> "c", rpc |-> r, act |-> "m", op |-> "trailer", cls |-> "ok", code |-> 0, msg |-> "", det |-> "0",
             idx |-> 0, md |-> IF cs[r].published THEN cs[r].trl ELSE MD0])
  /\ UNCHANGED <<c2s, s2c, car, cli, srv, ss, nf>>

\* finishStream (:848-879): CAS on done is the first step (taken by the caller of
\* finishStream: the receive loop or the watcher); the remaining sub-steps:
\*   1 -> 2 remove from the table, 2 -> 3 publish trailers / close signals,
\*   3 -> 4 close the receiver and cancel the stream context   (order after the D4 fix)
CliFinStep(r) ==
  /\ cs[r].fin \in 1..3
  /\ cs[r].finWho = "loop" => cli.busy = r
  /\ SetC(r, CASE cs[r].fin = 1 -> [cs[r] EXCEPT !.fin = 2, !.intable = FALSE]
               [] cs[r].fin = 2 -> [cs[r] EXCEPT !.fin = 3, !.published = TRUE]
               [] cs[r].fin = 3 -> [cs[r] EXCEPT !.fin = 4, !.rclosed = TRUE,
                                                 !.ctx = IF @ = "live" THEN "finished" ELSE @])
  /\ cli' = IF cs[r].fin = 3 /\ cs[r].finWho = "loop" THEN [cli EXCEPT !.busy = 0] ELSE cli
  /\ OSkip
  /\ UNCHANGED <<c2s, s2c, car, srv, ss, app, nf>>

\* the receive loop takes the next frame (:501-541, :786-829)   [driver action: frame delivery]
CliDeliver ==
  /\ cli.up /\ ~car.failed /\ cli.busy = 0 /\ s2c # <<>>
  /\ LET f == Head(s2c)
         r == IF \E x \in RPCs : cs[x].id = f.sid /\ cs[x].intable
              THEN CHOOSE x \in RPCs : cs[x].id = f.sid /\ cs[x].intable ELSE 0
     IN /\ s2c' = Tail(s2c)
        /\ OWireRecv(EvWire("wire.recv", "s2c", f))
        /\ IF r = 0
           THEN \* used and disposed of stream: ignore (ids above lastID cannot occur with this server)
                UNCHANGED <<cs, cli>>
           ELSE CASE f.kind = "hdr" -> SetC(r, [cs[r] EXCEPT !.hdr = TRUE, !.hdrMD = IF cs[r].hdr THEN @ ELSE f.md]) /\ UNCHANGED cli
                  [] f.kind = "close" ->
                       IF cs[r].done # "" THEN UNCHANGED <<cs, cli>>
                       ELSE /\ SetC(r, [cs[r] EXCEPT !.done = IF f.code = 0 THEN "eof" ELSE "status", !.doneCode = f.code,
                                                     !.fin = 1, !.finWho = "loop", !.trl = f.md])
                            /\ cli' = [cli EXCEPT !.busy = r]
                  [] f.kind = "wu" -> SetC(r, [cs[r] EXCEPT !.swin = @ + f.len]) /\ UNCHANGED cli
                  [] f.kind \in {"msg", "more"} ->
                       IF cs[r].rclosed THEN UNCHANGED <<cs, cli>>
                       ELSE SetC(r, [cs[r] EXCEPT !.rwin = @ - f.len, !.rq = Append(@, f)]) /\ UNCHANGED cli
                  [] OTHER -> UNCHANGED <<cs, cli>>
  /\ UNCHANGED <<c2s, car, srv, ss, app, nf>>

\* the watcher goroutine (:316-321) wakes when the stream context is done ...
CliWatchFire(r) ==
  /\ cs[r].watch = "wait" /\ cs[r].ctx # "live"
  /\ SetC(r, [cs[r] EXCEPT !.watch = "fired"])
  /\ OSkip
  /\ UNCHANGED <<c2s, s2c, car, cli, srv, ss, app, nf>>

\* ... cancelStream (:831-846): finishStream(ctx error); first writer wins
CliCancelCAS(r) ==
  /\ cs[r].watch = "fired" /\ cs[r].wstep = 0
  /\ IF cs[r].done # ""
     THEN SetC(r, [cs[r] EXCEPT !.watch = "gone"])
     ELSE SetC(r, [cs[r] EXCEPT !.done = IF cs[r].ctx = "deadline" THEN "deadline" ELSE "cancel",
                               !.doneCode = CtxCode(cs[r].ctx), !.fin = 1, !.finWho = "watch", !.wstep = 1])
  /\ OSkip
  /\ UNCHANGED <<c2s, s2c, car, cli, srv, ss, app, nf>>

\* ... if it won: receiver.cancel() drops queued frames, then the cancel frame is sent asynchronously
CliCancelRcv(r) ==
  /\ cs[r].watch = "fired" /\ cs[r].wstep = 1 /\ cs[r].fin = 4
  /\ SetC(r, [cs[r] EXCEPT !.rcancelled = TRUE, !.rq = <<>>, !.cancelOwed = TRUE, !.watch = "gone", !.wstep = 2])
  /\ OSkip
  /\ UNCHANGED <<c2s, s2c, car, cli, srv, ss, app, nf>>

CliEmitCancel(r) ==
  /\ cs[r].cancelOwed
  /\ SetC(r, [cs[r] EXCEPT !.cancelOwed = FALSE])
  /\ IF C2SUp
     THEN /\ c2s' = Append(c2s, Frame(cs[r].id, "cancel", 0, 0, 0, 0, NoMid))
          /\ OWireSend(EvWire("wire.send", "c2s", Frame(cs[r].id, "cancel", 0, 0, 0, 0, NoMid)))
     ELSE /\ UNCHANGED c2s /\ OSkip      \* the send fails on a closed channel
  /\ UNCHANGED <<s2c, car, cli, srv, ss, app, nf>>

\* the application cancels the RPC's context   [driver fault]
Cancel(r) ==
  /\ "cancel" \in Faults /\ nf < MaxFaults
  /\ cs[r].id # 0 /\ cs[r].ctx = "live"
  /\ cli.creating # r
  /\ SetC(r, [cs[r] EXCEPT !.ctx = "cancel"])
  /\ nf' = nf + 1
  /\ OCtl([ev |-> "ctl", what |-> "cancel", rpc |-> r])
  /\ UNCHANGED <<c2s, s2c, car, cli, srv, ss, app>>

\* Close() (:246-248, :551-575): logged, then tear-down (CloseSend), mark finished,
\* cancel every stream context, drop the table   [driver fault + one internal step]
CtlClose ==
  /\ "close" \in Faults /\ nf < MaxFaults /\ cli.up /\ ~cli.closing
  /\ cli' = [cli EXCEPT !.closing = TRUE]
  /\ nf' = nf + 1
  /\ OCtl([ev |-> "ctl", what |-> "close"])
  /\ UNCHANGED <<c2s, s2c, car, cs, srv, ss, app>>

CliCloseDo ==
  /\ cli.closing /\ cli.up
  /\ cli' = [cli EXCEPT !.up = FALSE, !.err = "ok"]
  /\ car' = IF Dir = "fwd" THEN [car EXCEPT !.closeSend = TRUE] ELSE car
  /\ cs' = [r \in RPCs |-> IF cs[r].intable
                           THEN [cs[r] EXCEPT !.intable = FALSE, !.ctx = IF @ = "live" THEN "tunnel" ELSE @]
                           ELSE cs[r]]
  /\ OTun([ev |-> "tun", what |-> "chdone", cls |-> "ok"])
  /\ UNCHANGED <<c2s, s2c, srv, ss, app, nf>>

\* reverse tunnel: the opening RPC's handler (openReverseTunnel) has seen Done() and returns; from here on gRPC
\* refuses what either end still sends and the tunnel server's Recv ends after the frames already sent
RevHandlerReturn ==
  /\ Dir = "rev" /\ ~cli.up /\ ~car.closeSend
  /\ car' = [car EXCEPT !.closeSend = TRUE]
  /\ OSkip
  /\ UNCHANGED <<c2s, s2c, cli, cs, srv, ss, app, nf>>

\* the transport fails (connection lost): both ends' Recv fail, every Send returns an error, frames in
\* flight are never delivered   [driver fault]
CarFail ==
  /\ "fail" \in Faults /\ nf < MaxFaults /\ ~car.failed /\ (cli.up \/ srv.up)
  /\ car' = [car EXCEPT !.failed = TRUE]
  /\ nf' = nf + 1
  /\ OCar([ev |-> "car", what |-> "fail"])
  /\ UNCHANGED <<c2s, s2c, cli, cs, srv, ss, app>>

\* the receive loop's Recv fails: close(err) - as Close() but with the error, and nothing to tear down
CliFailDo ==
  /\ car.failed /\ cli.up /\ cli.busy = 0
  /\ cli' = [cli EXCEPT !.up = FALSE, !.err = "err"]
  /\ cs' = [r \in RPCs |-> IF cs[r].intable
                           THEN [cs[r] EXCEPT !.intable = FALSE, !.ctx = IF @ = "live" THEN "tunnel" ELSE @]
                           ELSE cs[r]]
  /\ OTun([ev |-> "tun", what |-> "chdone", cls |-> "err"])
  /\ UNCHANGED <<c2s, s2c, car, srv, ss, app, nf>>

---------------------------------------------------------------------------
(* Tunnel server and handler application (tunnel_server.go)                *)

SrvLiveSid(s) == IF \E x \in RPCs : cs[x].id = s /\ ss[x].st = "live"
                 THEN CHOOSE x \in RPCs : cs[x].id = s /\ ss[x].st = "live" ELSE 0

\* the tunnel server can still put frames on the carrier
S2CUp == srv.up /\ ~(Dir = "rev" /\ car.closeSend) /\ ~car.failed

\* the serve loop takes the next frame (:71-112, :340-368)   [driver action: frame delivery]
SrvDeliver ==
  /\ srv.up /\ ~car.failed /\ srv.busy = 0 /\ c2s # <<>>
  /\ LET f == Head(c2s)
         r == SrvLiveSid(f.sid)
     IN /\ c2s' = Tail(c2s)
        /\ OWireRecv(EvWire("wire.recv", "c2s", f))
        /\ IF f.kind = "new"
           THEN \* createStream (:120-237): the id is recorded first (fix D2), then refused or created
                /\ srv' = [srv EXCEPT !.lastSeen = f.sid]
                /\ IF srv.stopping
                   THEN SetS(f.rpc, [ss[f.rpc] EXCEPT !.rejectOwed = 1])
                   ELSE SetS(f.rpc, [ss[f.rpc] EXCEPT !.st = "live", !.h = "spawned", !.watch = "wait"])
           ELSE IF r = 0 THEN UNCHANGED <<ss, srv>>   \* id <= lastSeen: used and disposed of, ignore
           ELSE CASE f.kind = "half" ->
                       /\ SetS(r, IF ss[r].half = "" THEN [ss[r] EXCEPT !.half = "eof", !.rclosed = TRUE] ELSE ss[r])
                       /\ UNCHANGED srv
                  [] f.kind = "cancel" ->
                       \* finishStream(Canceled) run by the serve loop, sub-steps below
                       /\ SetS(r, [ss[r] EXCEPT !.finL = 1, !.finLcode = 1])
                       /\ srv' = [srv EXCEPT !.busy = r]
                  [] f.kind = "wu" -> SetS(r, [ss[r] EXCEPT !.swin = @ + f.len]) /\ UNCHANGED srv
                  [] f.kind \in {"msg", "more"} ->
                       /\ IF ss[r].rclosed THEN UNCHANGED ss
                          ELSE SetS(r, [ss[r] EXCEPT !.rwin = @ - f.len, !.rq = Append(@, f)])
                       /\ UNCHANGED srv
                  [] OTHER -> UNCHANGED <<ss, srv>>
  /\ UNCHANGED <<s2c, car, cli, cs, app, nf>>

\* the client hung up and everything was read: serve returns, its deferred cancel of the
\* root context reaches every handler (:71-82)
SrvServeExit ==
  /\ srv.up /\ srv.busy = 0 /\ c2s = <<>> /\ car.closeSend
  /\ srv' = [srv EXCEPT !.up = FALSE]
  /\ ss' = [r \in RPCs |-> IF ss[r].st # "none" /\ ss[r].ctx = "live" THEN [ss[r] EXCEPT !.ctx = "tunnel"] ELSE ss[r]]
  /\ OTun([ev |-> "tun", what |-> "serveret", cls |-> "ok"])
  /\ UNCHANGED <<c2s, s2c, car, cli, cs, app, nf>>

\* the transport failed: the serve loop's Recv fails, serve returns the error; same deferred cancel
SrvFailExit ==
  /\ car.failed /\ srv.up /\ srv.busy = 0
  /\ srv' = [srv EXCEPT !.up = FALSE]
  /\ ss' = [r \in RPCs |-> IF ss[r].st # "none" /\ ss[r].ctx = "live" THEN [ss[r] EXCEPT !.ctx = "tunnel"] ELSE ss[r]]
  /\ OTun([ev |-> "tun", what |-> "serveret", cls |-> "err"])
  /\ UNCHANGED <<c2s, s2c, car, cli, cs, app, nf>>

\* the handler goroutine starts (:572-603)
HandlerStart(r) ==
  /\ ss[r].h = "spawned"
  /\ SetS(r, [ss[r] EXCEPT !.h = "running"])
  /\ OInvoked([ev |-> "invoked", rpc |-> r, shape |-> "bidi", method |-> "m", md |-> MD0])
  /\ UNCHANGED <<c2s, s2c, car, cli, cs, srv, app, nf>>

\* asynchronous rejection (:89-101)
SrvEmitReject(r) ==
  /\ ss[r].rejectOwed = 1
  /\ SetS(r, [ss[r] EXCEPT !.rejectOwed = 2])
  /\ IF S2CUp
     THEN /\ s2c' = Append(s2c, Frame(cs[r].id, "close", 0, 0, 14, 0, NoMid))
          /\ OWireSend(EvWire("wire.send", "s2c", Frame(cs[r].id, "close", 0, 0, 14, 0, NoMid)))
     ELSE /\ UNCHANGED s2c /\ OSkip
  /\ UNCHANGED <<c2s, car, cli, cs, srv, app, nf>>

\* the handler starts its next scripted op   [driver action]
SrvOpStart(r) ==
  /\ ss[r].h = "running" /\ SBusy(r) = "" /\ app[r].s.pc <= Len(SScript[r])
  /\ LET o == SOp(r) IN
     /\ o.op = "send" => ~ss[r].sfailed
     /\ app' = [app EXCEPT ![r].s.busy = o.op]
     /\ CASE o.op = "send" ->
               /\ SetS(r, [ss[r] EXCEPT !.snd = IF ss[r].sentHdr THEN "need" ELSE "hdr", !.sleft = o.n, !.ssize = o.n,
                                       !.sfirst = TRUE, !.nsent = @ + 1])
               /\ OOpStart(EvOpStart("s", r, "send", ss[r].nsent, o.n, 0))
          [] o.op = "ret" ->
               \* the handler returns: finishStream(status) run by the handler goroutine
               /\ SetS(r, [ss[r] EXCEPT !.h = "returned", !.finH = 1, !.retCode = o.code])
               /\ OOpStart(EvOpStart("s", r, "ret", 0, 0, o.code))
          [] o.op \in MetaOps ->
               /\ SetS(r, [ss[r] EXCEPT !.meta = 1])
               /\ OOpStart([EvOpStart("s", r, o.op, 0, 0, 0) EXCEPT !.md = MDTab[o.n]])
          [] OTHER ->
               /\ UNCHANGED ss
               /\ OOpStart(EvOpStart("s", r, o.op, 0, 0, 0))
  /\ UNCHANGED <<c2s, s2c, car, cli, cs, srv, nf>>

\* SetHeader / SendHeader / SetTrailer (:370-450), under writeMu: headers can be set until they were sent
\* (with the first message, by SendHeader, or with the close frame); SendHeader sends them now
SrvMetaDo(r) ==
  /\ SBusy(r) \in MetaOps /\ ss[r].meta = 1
  /\ LET o == SOp(r)
         md == MDTab[o.n]
         late == ss[r].sentHdr \/ ss[r].closed
     IN CASE o.op = "settrl" ->
               /\ SetS(r, [ss[r] EXCEPT !.trls = IF ss[r].closed THEN @ ELSE MDJoin(@, md), !.meta = 2])
               /\ UNCHANGED s2c /\ OSkip
          [] o.op = "sethdr" ->
               /\ SetS(r, [ss[r] EXCEPT !.hdrs = IF late THEN @ ELSE MDJoin(@, md), !.meta = IF late THEN 3 ELSE 2])
               /\ UNCHANGED s2c /\ OSkip
          [] o.op = "sendhdr" ->
               IF late
               THEN /\ SetS(r, [ss[r] EXCEPT !.meta = 3]) /\ UNCHANGED s2c /\ OSkip
               ELSE \* (the frame cannot be sent any more: SendHeader returns the transport's error)
                    /\ SetS(r, [ss[r] EXCEPT !.hdrs = MDJoin(@, md), !.sentHdr = TRUE, !.meta = IF S2CUp THEN 2 ELSE 3])
                    /\ IF S2CUp
                       THEN /\ s2c' = Append(s2c, FrameMD(cs[r].id, "hdr", 0, MDJoin(ss[r].hdrs, md)))
                            /\ OWireSend(EvWire("wire.send", "s2c", FrameMD(cs[r].id, "hdr", 0, MDJoin(ss[r].hdrs, md))))
                       ELSE /\ UNCHANGED s2c /\ OSkip
  /\ UNCHANGED <<c2s, car, cli, cs, srv, app, nf>>

SrvMetaRet(r) ==
  /\ SBusy(r) \in MetaOps /\ ss[r].meta \in {2, 3}
  /\ SetS(r, [ss[r] EXCEPT !.meta = 0])
  /\ SDoneOp(r)
  /\ OOpRet(EvOpRet("s", r, SOp(r).op, IF ss[r].meta = 2 THEN "ok" ELSE "err", IF ss[r].meta = 2 THEN 0 ELSE -1, 0))
  /\ UNCHANGED <<c2s, s2c, car, cli, cs, srv, nf>>

\* SendMsg (:451-476): headers first (lazily), under writeMu
SrvEmitHdr(r) ==
  /\ ss[r].snd = "hdr"
  /\ SetS(r, [ss[r] EXCEPT !.snd = "need", !.sentHdr = TRUE])
  /\ IF S2CUp
     THEN /\ s2c' = Append(s2c, FrameMD(cs[r].id, "hdr", 0, ss[r].hdrs))
          /\ OWireSend(EvWire("wire.send", "s2c", FrameMD(cs[r].id, "hdr", 0, ss[r].hdrs)))
     ELSE /\ UNCHANGED s2c /\ OSkip
  /\ UNCHANGED <<c2s, car, cli, cs, srv, app, nf>>

SrvReserve(r) ==
  /\ ss[r].snd = "need" /\ ss[r].swin > 0
  /\ LET k == Min3(ss[r].swin, ss[r].sleft, CH) IN
     SetS(r, [ss[r] EXCEPT !.swin = @ - k, !.sres = k, !.snd = "res"])
  /\ OSkip
  /\ UNCHANGED <<c2s, s2c, car, cli, cs, srv, app, nf>>

SrvEmit(r) ==
  /\ ss[r].snd = "res"
  /\ LET c == ss[r]
         f == Frame(cs[r].id, IF c.sfirst THEN "msg" ELSE "more", IF c.sfirst THEN c.ssize ELSE 0, c.sres, 0, 0,
                    <<r, "s", c.nsent - 1>>)
     IN IF S2CUp
        THEN /\ s2c' = Append(s2c, f)
             /\ SetS(r, [c EXCEPT !.sleft = @ - c.sres, !.sres = 0, !.sfirst = FALSE,
                                  !.snd = IF c.sleft - c.sres = 0 THEN "done" ELSE "need"])
             /\ OWireSend(EvWire("wire.send", "s2c", f))
        ELSE \* the carrier is gone: the send fails
             /\ UNCHANGED s2c
             /\ SetS(r, [c EXCEPT !.snd = "fail"])
             /\ OSkip
  /\ UNCHANGED <<c2s, car, cli, cs, srv, app, nf>>

SrvSendAbort(r) ==
  /\ \/ ss[r].snd = "need" /\ ss[r].swin = 0 /\ ss[r].ctx # "live"
     \/ ss[r].snd = "fail"
  /\ SetS(r, [ss[r] EXCEPT !.snd = "idle", !.sfailed = TRUE])
  /\ SDoneOp(r)
  /\ OOpRet(EvOpRet("s", r, "send", "err", IF ss[r].snd = "fail" THEN -1 ELSE CtxCode(ss[r].ctx), ss[r].nsent - 1))
  /\ UNCHANGED <<c2s, s2c, car, cli, cs, srv, nf>>

SrvSendRet(r) ==
  /\ SBusy(r) = "send" /\ ss[r].snd = "done"
  /\ SetS(r, [ss[r] EXCEPT !.snd = "idle"])
  /\ SDoneOp(r)
  /\ OOpRet(EvOpRet("s", r, "send", "ok", 0, ss[r].nsent - 1))
  /\ UNCHANGED <<c2s, s2c, car, cli, cs, srv, nf>>

\* RecvMsg (:478-570): context check at the top of the loop, dequeue, credit
SrvRecvCtx(r) ==
  /\ SBusy(r) = "recv" /\ ~ss[r].ready /\ ss[r].credit = 0 /\ ss[r].ctx # "live"
  /\ SDoneOp(r)
  /\ UNCHANGED ss
  /\ OOpRet(EvOpRet("s", r, "recv", "err", CtxCode(ss[r].ctx), 0))
  /\ UNCHANGED <<c2s, s2c, car, cli, cs, srv, nf>>

SrvDequeue(r) ==
  /\ SBusy(r) = "recv" /\ ~ss[r].ready /\ ss[r].credit = 0 /\ ~ss[r].rcancelled /\ ss[r].rq # <<>>
  /\ LET f == Head(ss[r].rq)
         c1 == [ss[r] EXCEPT !.rq = Tail(@), !.rwin = @ + f.len, !.credit = f.len]
     IN SetS(r, Reassemble(c1, f))
  /\ OSkip
  /\ UNCHANGED <<c2s, s2c, car, cli, cs, srv, app, nf>>

\* ... window update unless the stream is (half-)closed (:217-228)
SrvCredit(r) ==
  /\ ss[r].credit > 0
  /\ IF ss[r].half # "" \/ ~S2CUp
     THEN /\ OSkip /\ UNCHANGED s2c
     ELSE /\ s2c' = Append(s2c, Frame(cs[r].id, "wu", 0, ss[r].credit, 0, 0, NoMid))
          /\ OWireSend(EvWire("wire.send", "s2c", Frame(cs[r].id, "wu", 0, ss[r].credit, 0, 0, NoMid)))
  /\ SetS(r, [ss[r] EXCEPT !.credit = 0])
  /\ UNCHANGED <<c2s, car, cli, cs, srv, app, nf>>

SrvRecvMsgRet(r) ==
  /\ SBusy(r) = "recv" /\ ss[r].ready /\ ss[r].credit = 0
  /\ SetS(r, [ss[r] EXCEPT !.ready = FALSE, !.need = -1, !.ngot = @ + 1])
  /\ SDoneOp(r)
  /\ OOpRet(EvOpRetMsg("s", r, ss[r].mid, ss[r].msize, ss[r].mok))
  /\ UNCHANGED <<c2s, s2c, car, cli, cs, srv, nf>>

\* ... dequeue failed: receiver closed and empty, or cancelled.  After fix D1 the
\* context error has priority; otherwise the half-close result (EOF or the finish error)
SrvRecvEnd(r) ==
  /\ SBusy(r) = "recv" /\ ~ss[r].ready /\ ss[r].credit = 0 /\ ss[r].ctx = "live"
  /\ ss[r].rcancelled \/ (ss[r].rq = <<>> /\ ss[r].rclosed)
  /\ SDoneOp(r)
  /\ UNCHANGED ss
  /\ OOpRet(EvOpRet("s", r, "recv", IF ss[r].half = "eof" THEN "eof" ELSE "err", IF ss[r].half = "eof" THEN 0 ELSE 1, 0))
  /\ UNCHANGED <<c2s, s2c, car, cli, cs, srv, nf>>

\* finishStream (:605-667), run by the serve loop (who = "L", after a cancel frame) and/or
\* by the handler goroutine (who = "H", after the handler returned):
\*   1 -> 2 cancel the context, 2 -> 3 remove from the table, 3 -> 4 halfClose(err),
\*   4 -> 5 under writeMu: once-only closed, snapshot, spawn the async close sender
SrvFinStep(r, who) ==
  LET st == IF who = "L" THEN ss[r].finL ELSE ss[r].finH
      code == IF who = "L" THEN ss[r].finLcode ELSE ss[r].retCode
      adv(rec) == IF who = "L" THEN [rec EXCEPT !.finL = st + 1] ELSE [rec EXCEPT !.finH = st + 1]
  IN
  /\ st \in 1..4
  /\ who = "L" => srv.busy = r
  \* writeMu is held by a SendMsg in progress
  /\ st = 4 => ss[r].snd \in {"idle", "done"} \/ who = "H"
  /\ SetS(r, adv(CASE st = 1 -> [ss[r] EXCEPT !.ctx = IF @ = "live" THEN "finished" ELSE @]
                   [] st = 2 -> [ss[r] EXCEPT !.st = "removed"]
                   [] st = 3 -> IF ss[r].half = "" THEN [ss[r] EXCEPT !.half = IF code = 0 THEN "eof" ELSE "err", !.rclosed = TRUE]
                                ELSE ss[r]
                   [] st = 4 -> IF ss[r].closed THEN ss[r]
                                ELSE [ss[r] EXCEPT !.closed = TRUE, !.closeOwed = IF ss[r].sentHdr THEN 2 ELSE 1,
                                                   !.snapH = ss[r].hdrs, !.snapT = ss[r].trls,
                                                   \* on the wire a plain context.Canceled error is status Unknown (2)
                                                   !.sentHdr = TRUE, !.closeCode = IF who = "L" THEN 2 ELSE code]))
  /\ srv' = IF who = "L" /\ st = 4 THEN [srv EXCEPT !.busy = 0] ELSE srv
  /\ OSkip
  /\ UNCHANGED <<c2s, s2c, car, cli, cs, app, nf>>

\* the handler's return is complete once its finishStream is
HandlerRetDone(r) ==
  /\ SBusy(r) = "ret" /\ ss[r].finH = 5
  /\ SDoneOp(r)
  /\ UNCHANGED ss
  /\ OOpRet(EvOpRet("s", r, "ret", "ok", 0, 0))
  /\ UNCHANGED <<c2s, s2c, car, cli, cs, srv, nf>>

\* the async close sender (:629-647): headers frame if not yet sent, then close_stream
SrvEmitClose(r) ==
  /\ ss[r].closeOwed \in {1, 2}
  /\ LET f == IF ss[r].closeOwed = 1 THEN FrameMD(cs[r].id, "hdr", 0, ss[r].snapH)
              ELSE FrameMD(cs[r].id, "close", ss[r].closeCode, ss[r].snapT)
     IN /\ SetS(r, [ss[r] EXCEPT !.closeOwed = IF @ = 1 THEN 2 ELSE 0])
        /\ IF S2CUp
           THEN /\ s2c' = Append(s2c, f)
                /\ OWireSend(EvWire("wire.send", "s2c", f))
           ELSE /\ UNCHANGED s2c /\ OSkip
  /\ UNCHANGED <<c2s, car, cli, cs, srv, app, nf>>

\* the stream's watcher (:582-587): context done => receiver.cancel()
SrvWatchFire(r) ==
  /\ ss[r].watch = "wait" /\ ss[r].ctx # "live"
  /\ SetS(r, [ss[r] EXCEPT !.watch = "gone", !.rcancelled = TRUE, !.rq = <<>>])
  /\ OSkip
  /\ UNCHANGED <<c2s, s2c, car, cli, cs, srv, app, nf>>

\* InitiateShutdown (handler.go:125-127)   [driver fault]
Shutdown ==
  /\ "shutdown" \in Faults /\ nf < MaxFaults /\ ~srv.stopping
  /\ srv' = [srv EXCEPT !.stopping = TRUE]
  /\ nf' = nf + 1
  /\ OCtl([ev |-> "ctl", what |-> "shutdown"])
  /\ UNCHANGED <<c2s, s2c, car, cli, cs, ss, app>>

---------------------------------------------------------------------------
(* Quiescence: no goroutine of the library or of an application can move.  *)

InternalOf(r) ==
  \/ CBusy(r) = "new" /\ ((cs[r].id = 0 /\ cli.creating = 0 /\ cli.up) \/ cli.creating = r
                          \/ (cs[r].id # 0 /\ cli.creating # r) \/ (cs[r].id = 0 /\ ~cli.up))
  \/ cs[r].snd = "need" /\ (cs[r].swin > 0 \/ cs[r].ctx # "live")
  \/ cs[r].snd = "res"
  \/ CBusy(r) = "send" /\ cs[r].snd = "done"
  \/ CBusy(r) = "half" \/ CBusy(r) = "badsend"
  \/ CBusy(r) = "header" /\ (cs[r].hdr \/ cs[r].published \/ cs[r].ctx # "live")
  \/ CBusy(r) = "trailer"
  \/ SBusy(r) \in MetaOps
  \/ CBusy(r) = "recv" /\ cs[r].credit = 0 /\ (cs[r].ready \/ cs[r].rcancelled \/ cs[r].rq # <<>> \/ cs[r].rclosed)
  \/ cs[r].credit > 0
  \/ cs[r].fin \in 1..3 /\ (cs[r].finWho = "loop" => cli.busy = r)
  \/ cs[r].watch = "wait" /\ cs[r].ctx # "live"
  \/ cs[r].watch = "fired" /\ (cs[r].wstep = 0 \/ (cs[r].wstep = 1 /\ cs[r].fin = 4))
  \/ cs[r].cancelOwed
  \/ ss[r].h = "spawned"
  \/ ss[r].rejectOwed = 1
  \/ ss[r].snd \in {"hdr", "res", "fail"}
  \/ ss[r].snd = "need" /\ (ss[r].swin > 0 \/ ss[r].ctx # "live")
  \/ SBusy(r) = "send" /\ ss[r].snd = "done"
  \/ SBusy(r) = "recv" /\ ss[r].credit = 0
       /\ (ss[r].ctx # "live" \/ ss[r].ready \/ ss[r].rcancelled \/ ss[r].rq # <<>> \/ ss[r].rclosed)
  \/ ss[r].credit > 0
  \/ ss[r].finL \in 1..4 /\ srv.busy = r /\ (ss[r].finL = 4 => ss[r].snd \in {"idle", "done"})
  \/ ss[r].finH \in 1..4
  \/ SBusy(r) = "ret" /\ ss[r].finH = 5
  \/ ss[r].closeOwed \in {1, 2}
  \/ ss[r].watch = "wait" /\ ss[r].ctx # "live"
  \/ CBusy(r) = "" /\ app[r].c.pc <= Len(CScript[r]) /\ COp(r).op \in {"send", "half", "badsend"} /\ cs[r].sfailed
  \/ ss[r].h = "running" /\ SBusy(r) = "" /\ app[r].s.pc <= Len(SScript[r]) /\ SOp(r).op = "send" /\ ss[r].sfailed

InternalEnabled ==
  \/ \E r \in RPCs : InternalOf(r)
  \/ cli.closing /\ cli.up
  \/ srv.up /\ srv.busy = 0 /\ c2s = <<>> /\ car.closeSend
  \/ car.failed /\ cli.up /\ cli.busy = 0
  \/ car.failed /\ srv.up /\ srv.busy = 0
  \/ Dir = "rev" /\ ~cli.up /\ ~car.closeSend

Blocked ==
  SetToSeq({ <<"c", r, "m", CBusy(r)>> : r \in { x \in RPCs : CBusy(x) # "" } }
           \cup { <<"s", r, "m", SBusy(r)>> : r \in { x \in RPCs : SBusy(x) # "" } })

HandlerCtx ==
  SetToSeq({ <<r, IF ss[r].ctx = "live" THEN 0 ELSE 1>> : r \in { x \in RPCs : ss[x].h = "running" } })

\* the report the harness produces at a quiescent point
QRec == [ev |-> "q", final |-> FALSE, blocked |-> Blocked, h |-> HandlerCtx, parked |-> <<>>,
         ctab |-> Cardinality({ r \in RPCs : cs[r].intable }),
         stab |-> IF srv.up THEN Cardinality({ r \in RPCs : ss[r].st = "live" }) ELSE 0,
         nsrv |-> IF srv.up THEN 1 ELSE 0, qc2s |-> Len(c2s), qs2c |-> Len(s2c), g |-> -1,
         chdone |-> ~cli.up, cherr |-> cli.err]
Quiesce ==
  /\ ~InternalEnabled /\ ~q.at
  /\ OQuiesce(QRec)
  /\ UNCHANGED mvars

---------------------------------------------------------------------------
Internal ==
  \/ \E r \in RPCs :
       \/ CliAlloc(r) \/ CliSendNew(r) \/ CliNewRet(r) \/ CliNewFail(r)
       \/ CliReserve(r) \/ CliEmit(r) \/ CliSendAbort(r) \/ CliSendRet(r) \/ CliBadSendRet(r)
       \/ CliHalf(r) \/ CliHalfRet(r)
       \/ CliDequeue(r) \/ CliCredit(r) \/ CliRecvMsgRet(r) \/ CliRecvEnd(r)
       \/ CliFinStep(r) \/ CliWatchFire(r) \/ CliCancelCAS(r) \/ CliCancelRcv(r) \/ CliEmitCancel(r)
       \/ CliHeaderRet(r) \/ CliTrailerRet(r) \/ SrvMetaDo(r) \/ SrvMetaRet(r)
       \/ HandlerStart(r) \/ SrvEmitReject(r)
       \/ SrvEmitHdr(r) \/ SrvReserve(r) \/ SrvEmit(r) \/ SrvSendAbort(r) \/ SrvSendRet(r)
       \/ SrvRecvCtx(r) \/ SrvDequeue(r) \/ SrvCredit(r) \/ SrvRecvMsgRet(r) \/ SrvRecvEnd(r)
       \/ SrvFinStep(r, "L") \/ SrvFinStep(r, "H") \/ HandlerRetDone(r) \/ SrvEmitClose(r) \/ SrvWatchFire(r)
  \/ CliCloseDo \/ CliFailDo \/ RevHandlerReturn
  \/ SrvServeExit \/ SrvFailExit
  \/ \E r \in RPCs : CliSendNewFail(r)

Driver ==
  \/ \E r \in RPCs : CliOpStart(r) \/ SrvOpStart(r) \/ Cancel(r)
  \/ CliDeliver \/ SrvDeliver
  \/ CtlClose \/ Shutdown \/ CarFail

\* In the stepped semantics internal actions are urgent: driver actions are taken only at
\* quiescent points, right after the quiescence report (this is how the harness executes).
DrvOK == ~Stepped \/ (~InternalEnabled /\ q.at)

Next ==
  \/ \E r \in RPCs : CliSkipOp(r)
  \/ \E r \in RPCs : SrvSkipOp(r)
  \/ \E r \in RPCs : CliAlloc(r)
  \/ \E r \in RPCs : CliSendNew(r)
  \/ \E r \in RPCs : CliNewRet(r)
  \/ \E r \in RPCs : CliNewFail(r)
  \/ \E r \in RPCs : CliReserve(r)
  \/ \E r \in RPCs : CliEmit(r)
  \/ \E r \in RPCs : CliEmitFail(r)
  \/ \E r \in RPCs : CliSendAbort(r)
  \/ \E r \in RPCs : CliSendRet(r)
  \/ \E r \in RPCs : CliBadSendRet(r)
  \/ \E r \in RPCs : CliHalf(r)
  \/ \E r \in RPCs : CliHalfRet(r)
  \/ \E r \in RPCs : CliDequeue(r)
  \/ \E r \in RPCs : CliCredit(r)
  \/ \E r \in RPCs : CliRecvMsgRet(r)
  \/ \E r \in RPCs : CliRecvEnd(r)
  \/ \E r \in RPCs : CliFinStep(r)
  \/ \E r \in RPCs : CliWatchFire(r)
  \/ \E r \in RPCs : CliCancelCAS(r)
  \/ \E r \in RPCs : CliCancelRcv(r)
  \/ \E r \in RPCs : CliEmitCancel(r)
  \/ \E r \in RPCs : CliHeaderRet(r)
  \/ \E r \in RPCs : CliTrailerRet(r)
  \/ \E r \in RPCs : SrvMetaDo(r)
  \/ \E r \in RPCs : SrvMetaRet(r)
  \/ \E r \in RPCs : HandlerStart(r)
  \/ \E r \in RPCs : SrvEmitReject(r)
  \/ \E r \in RPCs : SrvEmitHdr(r)
  \/ \E r \in RPCs : SrvReserve(r)
  \/ \E r \in RPCs : SrvEmit(r)
  \/ \E r \in RPCs : SrvSendAbort(r)
  \/ \E r \in RPCs : SrvSendRet(r)
  \/ \E r \in RPCs : SrvRecvCtx(r)
  \/ \E r \in RPCs : SrvDequeue(r)
  \/ \E r \in RPCs : SrvCredit(r)
  \/ \E r \in RPCs : SrvRecvMsgRet(r)
  \/ \E r \in RPCs : SrvRecvEnd(r)
  \/ \E r \in RPCs : SrvFinStep(r, "L")
  \/ \E r \in RPCs : SrvFinStep(r, "H")
  \/ \E r \in RPCs : HandlerRetDone(r)
  \/ \E r \in RPCs : SrvEmitClose(r)
  \/ \E r \in RPCs : SrvWatchFire(r)
  \/ CliCloseDo
  \/ CliFailDo
  \/ RevHandlerReturn
  \/ SrvServeExit
  \/ SrvFailExit
  \/ \E r \in RPCs : CliSendNewFail(r)
  \/ Quiesce
  \/ DrvOK /\ \E r \in RPCs : CliOpStart(r)
  \/ DrvOK /\ \E r \in RPCs : SrvOpStart(r)
  \/ DrvOK /\ \E r \in RPCs : Cancel(r)
  \/ DrvOK /\ CliDeliver
  \/ DrvOK /\ SrvDeliver
  \/ DrvOK /\ CtlClose
  \/ DrvOK /\ Shutdown
  \/ DrvOK /\ CarFail

Spec == Init /\ [][Next]_vars

\* ---- liveness (C04, C05, C07 at the level of the design) ---------------------------------
\* Fairness: every goroutine of the library that can move eventually does; the applications
\* go on with their scripts and the carrier goes on delivering (faults are not forced).
Progress == Internal \/ Quiesce \/ (\E r \in RPCs : CliSkipOp(r) \/ SrvSkipOp(r) \/ CliEmitFail(r))
Fair == /\ WF_vars(Progress)
        /\ \A r \in RPCs : WF_vars(DrvOK /\ CliOpStart(r)) /\ WF_vars(DrvOK /\ SrvOpStart(r))
        /\ WF_vars(DrvOK /\ CliDeliver) /\ WF_vars(DrvOK /\ SrvDeliver)
LiveSpec == Init /\ [][Next]_vars /\ Fair

\* every operation the caller's application starts returns, and its script runs to the end - whatever
\* the handler does, wherever a cancel / Close / shutdown strikes (nothing hangs, no lost wake-up)
CallerDone == \A r \in RPCs : CBusy(r) = "" /\ app[r].c.pc > Len(CScript[r])
AllCallerOpsReturn == <>[]CallerDone
\* every handler that was started ends (its operations return, by data, end of stream or its context)
HandlersEnd == \A r \in RPCs : [](ss[r].h = "running" => <>(ss[r].h # "running"))

\* the view hides nothing yet; history lives in the observation state
---------------------------------------------------------------------------
(* Model-level properties (in addition to the Cxx_* formulas of TunnelObs) *)

TypeOK ==
  /\ \A r \in RPCs : cs[r].swin >= 0 /\ cs[r].rwin >= 0 /\ ss[r].swin >= 0 /\ ss[r].rwin >= 0

\* The guard list InternalEnabled is exactly the enabledness of Internal
GuardsExact == InternalEnabled <=> ENABLED Internal

\* C05 / C06 at the level of the design: conservation of credit per stream and direction.
\*   window + reserved + in flight + queued + credit pending + credit in flight = W
InFlight(chan, sid, kinds) ==
  LET RECURSIVE S(_)
      S(i) == IF i = 0 THEN 0
              ELSE (IF chan[i].sid = sid /\ chan[i].kind \in kinds THEN chan[i].len ELSE 0) + S(i - 1)
  IN S(Len(chan))
Queued(rq) == LET RECURSIVE S(_)
                  S(i) == IF i = 0 THEN 0 ELSE rq[i].len + S(i - 1)
              IN S(Len(rq))

\* client -> server direction, while the server stream still accepts data and nothing was dropped
ConservationC2S ==
  \A r \in RPCs :
     (cs[r].id # 0 /\ cs[r].done = "" /\ cs[r].ctx = "live" /\ ss[r].st = "live" /\ ~ss[r].rclosed /\ ~ss[r].rcancelled
        /\ ss[r].half = "" /\ ss[r].ctx = "live" /\ srv.up /\ cli.up /\ ~car.failed) =>
        cs[r].swin + cs[r].sres + InFlight(c2s, cs[r].id, {"msg", "more"}) + Queued(ss[r].rq)
          + ss[r].credit + InFlight(s2c, cs[r].id, {"wu"}) = W

\* receiver's view: window + queued = W at all times (nothing buffered beyond the window)
ReceiverBounded ==
  \A r \in RPCs : /\ (~ss[r].rcancelled) => ss[r].rwin + Queued(ss[r].rq) = W
                  /\ (~cs[r].rcancelled) => cs[r].rwin + Queued(cs[r].rq) = W

\* no frame is ever refused for exceeding the window when both ends are this library
NoOverrun == \A r \in RPCs : cs[r].rwin >= 0 /\ ss[r].rwin >= 0

\* reachability witnesses (expected to be VIOLATED: they show that the bounded model is not vacuous)
ScriptsFinished == \A r \in RPCs : app[r].c.pc > Len(CScript[r]) /\ app[r].s.pc > Len(SScript[r])
Witness_NotAllFinished == ~ScriptsFinished
Witness_NoSenderBlocked == ~(q.at /\ \E r \in RPCs : CBusy(r) = "send" \/ SBusy(r) = "send")
Witness_NoCancelWins == \A r \in RPCs : cs[r].done # "cancel"
Witness_NoLateClose == \A r \in RPCs : ~(cs[r].done = "cancel" /\ ss[r].closeOwed = 0 /\ ss[r].closed)
=============================================================================
