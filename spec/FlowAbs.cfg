SPECIFICATION Spec
CONSTANTS
  W = 5
  CH = 2
INVARIANTS IndInv NeverRejected Restored
