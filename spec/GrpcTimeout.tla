---------------------------- MODULE GrpcTimeout ----------------------------
(***************************************************************************)
(* The gRPC wire rule for the "grpc-timeout" request header as a total     *)
(* function on strings (sequences of one-character strings):               *)
(*                                                                         *)
(*   Timeout      -> TimeoutValue TimeoutUnit                              *)
(*   TimeoutValue -> {positive integer as ASCII string of at most 8 digits}*)
(*   TimeoutUnit  -> "H" / "M" / "S" / "m" / "u" / "n"                      *)
(*                                                                         *)
(* Durations are kept in mixed radix <<hours, minutes, seconds, nanos>> so *)
(* that every component fits TLC's 32-bit integers.  The largest duration  *)
(* a Go time.Duration (int64 nanoseconds) can represent is                 *)
(*   2562047 h 47 min 16 s 854775807 ns.                                   *)
(***************************************************************************)
EXTENDS Integers, Sequences, FiniteSets

Digits == {"0", "1", "2", "3", "4", "5", "6", "7", "8", "9"}
Units  == {"H", "M", "S", "m", "u", "n"}

DigitVal(c) == CASE c = "0" -> 0 [] c = "1" -> 1 [] c = "2" -> 2 [] c = "3" -> 3 [] c = "4" -> 4
                 [] c = "5" -> 5 [] c = "6" -> 6 [] c = "7" -> 7 [] c = "8" -> 8 [] c = "9" -> 9

WellFormed(s) ==
  /\ Len(s) >= 2 /\ Len(s) <= 9
  /\ s[Len(s)] \in Units
  /\ \A i \in 1..(Len(s) - 1) : s[i] \in Digits

\* value of the (at most 8) digits: < 10^8, fits
Value(s) == LET RECURSIVE V(_)
                V(i) == IF i = 0 THEN 0 ELSE 10 * V(i - 1) + DigitVal(s[i])
            IN V(Len(s) - 1)

\* exact duration of a well-formed header in mixed radix
Decode(s) ==
  LET v == Value(s)
      u == s[Len(s)]
  IN CASE u = "H" -> <<v, 0, 0, 0>>
       [] u = "M" -> <<v \div 60, v % 60, 0, 0>>
       [] u = "S" -> <<v \div 3600, (v % 3600) \div 60, v % 60, 0>>
       [] u = "m" -> LET sec == v \div 1000 IN <<sec \div 3600, (sec % 3600) \div 60, sec % 60, (v % 1000) * 1000000>>
       [] u = "u" -> LET sec == v \div 1000000 IN <<sec \div 3600, (sec % 3600) \div 60, sec % 60, (v % 1000000) * 1000>>
       [] u = "n" -> <<0, 0, 0, v>>

MaxDuration == <<2562047, 47, 16, 854775807>>

\* lexicographic order on mixed-radix durations
Leq(a, b) ==
  \/ a[1] < b[1]
  \/ a[1] = b[1] /\ a[2] < b[2]
  \/ a[1] = b[1] /\ a[2] = b[2] /\ a[3] < b[3]
  \/ a[1] = b[1] /\ a[2] = b[2] /\ a[3] = b[3] /\ a[4] <= b[4]

Representable(s) == Leq(Decode(s), MaxDuration)

(***************************************************************************)
(* The property (C18): what a handler's deadline must be, given the header  *)
(* values a request carries and the observation [hasdl, neg, d] where d is  *)
(* the time left until the handler's deadline when the request was          *)
(* delivered (mixed radix, neg = already in the past).                      *)
(***************************************************************************)
GoodVals(vals) == { i \in 1..Len(vals) : WellFormed(vals[i]) }

\* a well-formed, representable header becomes exactly that deadline (with several headers: one of them)
C18_Exact(vals, o) ==
  (GoodVals(vals) # {} /\ \A i \in GoodVals(vals) : Representable(vals[i])) =>
     /\ o.hasdl /\ ~o.neg
     /\ \E i \in GoodVals(vals) : o.d = Decode(vals[i])

\* a value beyond the representable range saturates: no deadline, or one at least as far as the maximum
\* (or, with several headers, the exact value of another well-formed one)
C18_Saturates(vals, o) ==
  (\E i \in GoodVals(vals) : ~Representable(vals[i])) =>
     \/ ~o.hasdl
     \/ ~o.neg /\ Leq(MaxDuration, o.d)
     \/ ~o.neg /\ \E i \in GoodVals(vals) : Representable(vals[i]) /\ o.d = Decode(vals[i])

\* malformed headers never shorten the deadline (without a header a tunneled handler has none)
C18_MalformedNeverShortens(vals, o) ==
  GoodVals(vals) = {} => ~o.hasdl
=============================================================================
