---------------------------- MODULE RegistryTrace ----------------------------
(***************************************************************************)
(* Strict conformance of the real reverse-tunnel registry                   *)
(* (TunnelServiceHandler, handler.go) to the design model Registry.tla.     *)
(*                                                                         *)
(* Input: a history recorded by the multi-tunnel registry harness, reduced  *)
(* to the events the instrumented code emits at its linearization points    *)
(* (each hook sits right AFTER the critical section it names):              *)
(*   reg.pre.add -> Open      reg.add.global -> AddGlobal                   *)
(*   reg.add.key -> AddKey    cb.open -> CbOpen                             *)
(*   reg.unreg.global -> UnregGlobal (found)   reg.unreg.key -> UnregKey    *)
(*   cb.close -> CbClose      reg.pick(tunnel, cursor, length) -> Pick*     *)
(* and to the quiescence snapshots ("rq": AllReverseTunnels(), Ready() of   *)
(* every pooled channel), which must EQUAL the model's lists.               *)
(* Not logged (TLC infers them): a tunnel starting to end (End), an         *)
(* unregister that finds nothing, the channel being marked finished (Mark), *)
(* the handler's two deferred removals.                                     *)
(* The constants (which tunnels, their keys) are read from the first line.  *)
(* Acceptance: the invariant NotAccepted is violated.                       *)
(***************************************************************************)
EXTENDS Registry, Json, IOUtils

Trace == ndJsonDeserialize(IOEnv.VERIF_TRACE)

TrTunnels == { Trace[1].tunnels[i] : i \in 1..Len(Trace[1].tunnels) }
TrKeys == { Trace[1].keys[i] : i \in 1..Len(Trace[1].keys) }
TrKeyOf == [t \in TrTunnels |-> Trace[1].keyof[t]]

VARIABLES l,   \* position in Trace
          me   \* tunnels that may have started to end (the harness did something that ends them)
tvars == <<vars, l, me>>

TInit == Init /\ l = 2 /\ me = {}

Ev == Trace[l]
Is(k) == l <= Len(Trace) /\ Ev.ev = k
At(p) == Is("at") /\ Ev.point = p /\ Ev.t \in Tunnels
Logged(A) == A /\ l' = l + 1 /\ UNCHANGED me
Silent(A) == A /\ UNCHANGED <<l, me>>

\* The hooks sit right after their critical sections, OUTSIDE the lock: when two tunnels register at the same
\* moment, the order of their log lines need not be the order of their adds (which decides the list order).
\* An add may therefore happen (silently) a little before its own log line.
Min2(a, b) == IF a < b THEN a ELSE b
Pending(p, t) == \E j \in l..Min2(l + 5, Len(Trace)) : Trace[j].ev = "at" /\ Trace[j].point = p /\ Trace[j].t = t
Consume == l' = l + 1 /\ UNCHANGED <<vars, me>>

\* the tunnel picked is the one under the cursor AFTER the step; the length is the list's
PickOK(lst, idx) == lst # <<>> /\ Ev.len = Len(lst) /\ Ev.idx = idx /\ lst[idx + 1] = Ev.t

AsSet(sq) == { sq[i] : i \in 1..Len(sq) }
RqOK == /\ AsSet(Ev.enum) = Set(glist) /\ Len(Ev.enum) = Len(glist)
        /\ Ev.ready.all = (glist # <<>>)
        /\ \A k \in Keys : Ev.ready[k] = (klist[k] # <<>>)

TNext ==
  \/ At("reg.pre.add") /\ Logged(Open(Ev.t))
  \/ At("reg.add.global") /\ hpc[Ev.t] = "created" /\ Logged(AddGlobal(Ev.t))
  \/ At("reg.add.global") /\ hpc[Ev.t] # "created" /\ hpc[Ev.t] # "idle" /\ Consume
  \/ At("reg.add.key") /\ hpc[Ev.t] = "g" /\ Logged(AddKey(Ev.t))
  \/ At("reg.add.key") /\ hpc[Ev.t] \notin {"idle", "created", "g"} /\ Consume
  \/ \E t \in Tunnels : Pending("reg.add.global", t) /\ Silent(AddGlobal(t))
  \/ \E t \in Tunnels : Pending("reg.add.key", t) /\ Silent(AddKey(t))
  \/ Is("mayend") /\ me' = me \cup AsSet(Ev.ts) /\ l' = l + 1 /\ UNCHANGED vars
  \/ At("cb.open") /\ Logged(CbOpen(Ev.t))
  \/ At("reg.unreg.global") /\ In(glist, Ev.t) /\ Logged(UnregGlobal(Ev.t))
  \/ At("reg.unreg.key") /\ Logged(UnregKey(Ev.t))
  \/ At("cb.close") /\ Logged(CbClose(Ev.t))
  \/ Is("pick") /\ Logged(PickGlobal) /\ PickOK(glist, gidx')
  \/ Is("pick") /\ \E k \in Keys : Logged(PickKey(k)) /\ PickOK(klist[k], kidx'[k])
  \/ Is("rq") /\ RqOK /\ Consume
  \/ \E t \in Tunnels :
       \/ t \in me /\ Silent(End(t))
       \/ ~In(glist, t) /\ Silent(UnregGlobal(t))
       \/ Silent(Mark(t))
       \/ Silent(DeferRemoveKey(t))
       \/ Silent(DeferRemoveGlobal(t))

TSpec == TInit /\ [][TNext]_tvars

NotAccepted == l <= Len(Trace)

ASSUME TLCSet(7, 0)
Track == IF l > TLCGet(7) THEN TLCSet(7, l) ELSE TRUE
Post == PrintT(<<"MAXL", TLCGet(7), Len(Trace)>>)
=============================================================================
