-------------------------- MODULE GrpcTimeoutGen --------------------------
(* TLC enumerates the structured input domain of C18 and writes it out as  *)
(* the test table executed against the real code (one implementation test  *)
(* per input).  Run: tlc GrpcTimeoutGen (the ASSUME writes $VERIF_OUT).     *)
EXTENDS GrpcTimeout, TLC, Json, IOUtils, SequencesExt

\* (a) every string of length <= MaxLen over a small alphabet of digits, signs, blank, units, junk
Alphabet == {"0", "1", "9", "+", "-", " ", "H", "M", "S", "m", "u", "n", "x"}
MaxLen == IF "VERIF_GT_MAXLEN" \in DOMAIN IOEnv THEN atoi(IOEnv.VERIF_GT_MAXLEN) ELSE 3
Strings(n) == UNION { [1..k -> Alphabet] : k \in 0..n }

\* (b) digit strings of every length 1..20 with fill patterns, every unit; per-unit boundaries
Rep(c, n) == [i \in 1..n |-> c]
Patterns(n) == { Rep("9", n), <<"1">> \o Rep("0", n - 1), Rep("0", n - 1) \o <<"1">>, Rep("0", n) }
Long == UNION { { p \o <<u>> : p \in Patterns(n), u \in Units } : n \in 1..20 }
Chars(str) == str   \* boundaries are written directly as sequences below
Boundaries == {
  <<"2","5","6","2","0","4","7","H">>, <<"2","5","6","2","0","4","8","H">>, <<"9","9","9","9","9","9","9","9","H">>,
  <<"9","9","9","9","9","9","9","9","M">>, <<"9","9","9","9","9","9","9","9","S">>, <<"9","9","9","9","9","9","9","9","m">>,
  <<"9","9","9","9","9","9","9","9","u">>, <<"9","9","9","9","9","9","9","9","n">>,
  <<"1","5","3","7","2","2","8","6","7","M">>, <<"9","2","2","3","3","7","2","0","3","6","S">>,
  <<"9","2","2","3","3","7","2","0","3","6","8","5","4","7","7","5","8","0","7","n">>,
  <<"9","2","2","3","3","7","2","0","3","6","8","5","4","7","7","5","8","0","8","n">>,
  <<"1","8","4","4","6","7","4","4","0","7","3","7","0","9","5","5","1","6","1","6","n">>,
  <<"5","1","2","4","0","9","5","5","7","7","H">>, <<"1","S">>, <<"0","S">>, <<"5","0","0","m">>, <<"1","u">>, <<"1","n">>,
  <<"1","h">>, <<"1","s">>, <<"1","0">>, <<"S">>, <<>>, <<"1",".","5","S">>, <<"1","e","3","S">>, <<"0","x","1","0","S">>,
  <<" ","1","S">>, <<"1","S"," ">>, <<"1"," ","S">>, <<"+","1","S">>, <<"-","1","S">>, <<"-","0","S">>, <<"1","_","0","S">>
}

\* hour counts around every multiple of the int64 overflow point (2^63 ns = 2562047.788 h): a product that wraps
\* an even number of times is positive again
Digs(n) == LET RECURSIVE D(_)
               D(x) == IF x < 10 THEN <<ToString(x)>> ELSE Append(D(x \div 10), ToString(x % 10))
           IN D(n)
HBand(k) == k * 2562047 + (k * 788) \div 1000
Bands == { Digs(HBand(k) + d) \o <<"H">> : k \in 1..39, d \in {-1, 0, 1, 2, 1000} }

Singles == Strings(MaxLen) \cup Long \cup Boundaries \cup { b \in Bands : Len(b) <= 9 }

\* (c) repeated headers
Pool == { <<"5","S">>, <<"1","H">>, <<"x">>, <<"-","1","S">>, <<"9","9","9","9","9","9","9","9","H">>, <<"2","m">> }
Pairs == { <<a, b>> : a \in Pool, b \in Pool }

Vectors == { <<s>> : s \in Singles } \cup Pairs

ASSUME JsonSerialize(IOEnv.VERIF_OUT, SetToSeq(Vectors))
ASSUME PrintT(<<"vectors", Cardinality(Vectors), "wellformed", Cardinality({ s \in Singles : WellFormed(s) })>>)
=============================================================================
