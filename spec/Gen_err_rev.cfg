SPECIFICATION GenSpec
CONSTANTS
  W = 8
  CH = 2
  RPCs <- One
  CScript <- G_err
  SScript <- GS_err
  Faults <- AllFaults4
  MaxFaults = 1
  Stepped = TRUE
  Dir = "rev"
CHECK_DEADLOCK FALSE
INVARIANTS PrintSched
