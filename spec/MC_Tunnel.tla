------------------------------ MODULE MC_Tunnel ------------------------------
(* Bounded instances of Tunnel.tla.  The scripts and constants are chosen in *)
(* the .cfg files by overriding the definitions below.                       *)
EXTENDS Tunnel

Op(o) == [op |-> o, n |-> 0, code |-> 0]
Snd(n) == [op |-> "send", n |-> n, code |-> 0]
Ret(c) == [op |-> "ret", n |-> 0, code |-> c]

\* one bidi RPC: a request that crosses the window (W=4: 5 > W), a zero-length one, a reply
One == {1}
C_one == [r \in One |-> <<Op("new"), Snd(5), Snd(0), Op("half"), Op("recv"), Op("recv")>>]
S_one == [r \in One |-> <<Op("recv"), Op("recv"), Op("recv"), Snd(3), Ret(0)>>]

\* one RPC whose handler fails with a status
C_err == [r \in One |-> <<Op("new"), Snd(3), Op("recv")>>]
S_err == [r \in One |-> <<Op("recv"), Snd(1), Ret(5)>>]

\* a reply that does not fit the window while the caller reads late
C_down == [r \in One |-> <<Op("new"), Op("half"), Op("recv"), Op("recv")>>]
S_down == [r \in One |-> <<Op("recv"), Snd(5), Ret(0)>>]

\* two concurrent RPCs
Two == {1, 2}
C_two == [r \in Two |-> IF r = 1 THEN <<Op("new"), Snd(3), Op("half"), Op("recv")>>
                                ELSE <<Op("new"), Snd(1), Op("half"), Op("recv"), Op("recv")>>]
S_two == [r \in Two |-> IF r = 1 THEN <<Op("recv"), Op("recv"), Ret(0)>>
                                ELSE <<Op("recv"), Snd(2), Op("recv"), Ret(7)>>]

\* scripts for schedule generation and conformance checking (MC_TunnelGen, TunnelTrace);
\* sizes in units of 8192 bytes (W = 8, CH = 2)
G_one == [r \in One |-> <<Op("new"), Snd(9), Snd(0), Op("half"), Op("recv"), Op("recv"), Op("recv")>>]
GS_one == [r \in One |-> <<Op("recv"), Op("recv"), Op("recv"), Snd(3), Snd(10), Ret(0)>>]
G_two == [r \in Two |-> IF r = 1 THEN <<Op("new"), Snd(3), Snd(2), Op("half"), Op("recv"), Op("recv")>>
                                ELSE <<Op("new"), Snd(1), Op("half"), Op("recv"), Op("recv"), Op("recv")>>]
GS_two == [r \in Two |-> IF r = 1 THEN <<Op("recv"), Op("recv"), Op("recv"), Snd(9), Ret(0)>>
                                 ELSE <<Op("recv"), Snd(2), Op("recv"), Snd(1), Ret(7)>>]
\* a handler that fails with a status after a partial reply; a reply larger than the window read late;
\* a caller that sends more than the handler reads before it returns (early return)
G_err == [r \in One |-> <<Op("new"), Snd(3), Snd(1), Op("recv"), Op("recv"), Op("recv")>>]
GS_err == [r \in One |-> <<Op("recv"), Snd(1), Ret(5)>>]
G_down == [r \in One |-> <<Op("new"), Op("half"), Op("recv"), Op("recv"), Op("recv")>>]
GS_down == [r \in One |-> <<Op("recv"), Snd(11), Snd(2), Ret(0)>>]
G_early == [r \in Two |-> IF r = 1 THEN <<Op("new"), Snd(9), Snd(2), Op("half"), Op("recv")>>
                                  ELSE <<Op("new"), Snd(2), Op("recv"), Op("half"), Op("recv")>>]
GS_early == [r \in Two |-> IF r = 1 THEN <<Ret(3)>>
                                   ELSE <<Op("recv"), Snd(1), Ret(0)>>]

\* (exhaustive instance, W = 4: the refused message between one that crosses the chunk size and a zero-length one)
C_bad == [r \in One |-> <<Op("new"), Snd(3), Op("badsend"), Snd(0), Op("half"), Op("recv"), Op("recv")>>]
S_bad == [r \in One |-> <<Op("recv"), Op("recv"), Op("recv"), Ret(0)>>]
\* a message the encoder refuses, between two good ones: nothing of it is sent, the stream goes on
G_bad == [r \in One |-> <<Op("new"), Snd(1), Op("badsend"), Snd(3), Op("half"), Op("recv"), Op("recv"), Op("recv")>>]
GS_bad == [r \in One |-> <<Op("recv"), Op("recv"), Snd(2), Op("recv"), Ret(0)>>]

\* sanity check of the liveness properties (must FAIL): without fairness of delivery nothing has to arrive
UnfairSpec == Init /\ [][Next]_vars /\ WF_vars(Progress)
              /\ \A r \in RPCs : WF_vars(DrvOK /\ CliOpStart(r)) /\ WF_vars(DrvOK /\ SrvOpStart(r))

\* headers and trailers: SetHeader, SendHeader before the first reply, SetTrailer; the caller reads Header and Trailer
Meta(o, i) == [op |-> o, n |-> i, code |-> 0]
G_meta == [r \in One |-> <<Op("new"), Snd(1), Op("half"), Op("header"), Op("recv"), Op("recv"), Op("trailer")>>]
GS_meta == [r \in One |-> <<Op("recv"), Meta("sethdr", 1), Meta("sendhdr", 2), Snd(1), Meta("settrl", 3), Meta("sethdr", 1), Op("recv"), Ret(0)>>]
G_meta2 == [r \in One |-> <<Op("new"), Op("header"), Snd(1), Op("half"), Op("recv"), Op("trailer"), Op("recv"), Op("trailer")>>]
GS_meta2 == [r \in One |-> <<Meta("sethdr", 1), Meta("settrl", 3), Op("recv"), Snd(2), Meta("sendhdr", 2), Ret(5)>>]

NoFaults == {}
CancelOnly == {"cancel"}
CloseOnly == {"close"}
ShutdownOnly == {"shutdown"}
AllFaults == {"cancel", "close", "shutdown"}
FailOnly == {"fail"}
AllFaults4 == {"cancel", "close", "shutdown", "fail"}
=============================================================================
