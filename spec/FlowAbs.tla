------------------------------ MODULE FlowAbs ------------------------------
(***************************************************************************)
(* Counter abstraction of ONE stream direction of grpctunnel's flow         *)
(* control, over integers only, for ARBITRARY window W, chunk maximum CH    *)
(* and message sizes.  Every byte of credit is at all times in exactly one  *)
(* of seven places:                                                         *)
(*                                                                         *)
(*   swin      the sender's window (defaultSender.currentWindow)            *)
(*   reserved  CAS-reserved by the sender, chunk not yet on the wire        *)
(*   flight    data bytes on the carrier                                    *)
(*   queued    accepted into the receiver's queue (W - receiver window)     *)
(*   pending   dequeued by the application, window update not yet sent      *)
(*   credit    window-update bytes on the carrier                           *)
(*                                                                         *)
(* The conservation law  swin+reserved+flight+queued+pending+credit = W    *)
(* is an inductive invariant (checked with Apalache for symbolic W and CH: *)
(* base case from Init, inductive step from IndInit), and it implies that  *)
(* a conforming sender is never refused by the receiver (C06) and that once *)
(* everything has been read and delivered the sender's whole window is      *)
(* available again (C05).  TLC cross-checks it on small constants.          *)
(***************************************************************************)
EXTENDS Integers

CONSTANTS
  \* @type: Int;
  W,
  \* @type: Int;
  CH

VARIABLES
  \* @type: Int;
  swin,
  \* @type: Int;
  reserved,
  \* @type: Int;
  flight,
  \* @type: Int;
  queued,
  \* @type: Int;
  pending,
  \* @type: Int;
  credit,
  \* @type: Int;
  rwin

\* @type: <<Int, Int, Int, Int, Int, Int, Int>>;
vars == <<swin, reserved, flight, queued, pending, credit, rwin>>

CInit == W \in Int /\ CH \in Int /\ W > 0 /\ CH > 0 /\ CH <= W

Init == swin = W /\ reserved = 0 /\ flight = 0 /\ queued = 0 /\ pending = 0 /\ credit = 0 /\ rwin = W

\* the sender reserves a chunk of k bytes (0 < k <= min(window, CH)) by compare-and-swap
Reserve == \E k \in 1..CH :
  /\ reserved = 0 /\ k <= swin
  /\ swin' = swin - k /\ reserved' = k
  /\ UNCHANGED <<flight, queued, pending, credit, rwin>>

\* ... and puts it on the wire
Emit ==
  /\ reserved > 0
  /\ flight' = flight + reserved /\ reserved' = 0
  /\ UNCHANGED <<swin, queued, pending, credit, rwin>>

\* the receive loop accepts a frame of k bytes: it must fit the receiver's window
Accept == \E k \in 1..CH :
  /\ k <= flight /\ k <= rwin
  /\ flight' = flight - k /\ queued' = queued + k /\ rwin' = rwin - k
  /\ UNCHANGED <<swin, reserved, pending, credit>>

\* the application dequeues a frame of k bytes
Dequeue == \E k \in 1..CH :
  /\ k <= queued /\ pending = 0
  /\ queued' = queued - k /\ rwin' = rwin + k /\ pending' = k
  /\ UNCHANGED <<swin, reserved, flight, credit>>

\* ... and then sends the window update
SendCredit ==
  /\ pending > 0
  /\ credit' = credit + pending /\ pending' = 0
  /\ UNCHANGED <<swin, reserved, flight, queued, rwin>>

\* the sender's receive loop applies a window update of k bytes
RecvCredit == \E k \in 1..CH :
  /\ k <= credit
  /\ credit' = credit - k /\ swin' = swin + k
  /\ UNCHANGED <<reserved, flight, queued, pending, rwin>>

Next == Reserve \/ Emit \/ Accept \/ Dequeue \/ SendCredit \/ RecvCredit

Spec == Init /\ [][Next]_vars

\* the inductive invariant
IndInv ==
  /\ swin >= 0 /\ reserved >= 0 /\ flight >= 0 /\ queued >= 0 /\ pending >= 0 /\ credit >= 0
  /\ reserved <= CH /\ pending <= CH
  /\ swin + reserved + flight + queued + pending + credit = W
  /\ rwin = W - queued

\* any state satisfying the invariant (for the inductive step)
IndInit ==
  /\ swin \in Int /\ reserved \in Int /\ flight \in Int /\ queued \in Int /\ pending \in Int /\ credit \in Int /\ rwin \in Int
  /\ IndInv

\* consequences
NeverRejected == flight <= rwin                    \* whatever is on the wire fits the receiver's window
Restored == (reserved = 0 /\ flight = 0 /\ queued = 0 /\ pending = 0 /\ credit = 0) => swin = W
=============================================================================
