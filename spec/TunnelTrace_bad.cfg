SPECIFICATION TSpec
CONSTANTS
  W = 8
  CH = 2
  RPCs <- One
  CScript <- G_bad
  SScript <- GS_bad
  Faults <- AllFaults4
  MaxFaults = 1
  Stepped = TRUE
  Dir = "fwd"
CHECK_DEADLOCK FALSE
INVARIANT NotAccepted
CONSTRAINT Track
POSTCONDITION Post
