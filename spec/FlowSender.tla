----------------------------- MODULE FlowSender -----------------------------
(***************************************************************************)
(* The flow-control sender of grpctunnel (flow_control.go, defaultSender)   *)
(* at the granularity of single atomic operations: the window is a         *)
(* lock-free counter (atomic load, compare-and-swap, atomic add) and        *)
(* wake-ups travel through a one-slot channel with non-blocking sends.      *)
(*                                                                         *)
(* Three goroutines:                                                        *)
(*   sender   - send(data): load window; if zero wait for a wake-up token   *)
(*              or the context; else CAS-reserve min(window, rest, CH);     *)
(*              emit the chunk; repeat                                      *)
(*   updater  - the receive loop applying window updates: atomic add, then  *)
(*              a non-blocking send of a token iff the window WAS zero      *)
(*   cancel   - the stream's context ending                                 *)
(*                                                                         *)
(* The program-counter values of sender and updater are exactly the yield   *)
(* points of the instrumented code (snd.loaded, snd.cas.ok, snd.cas.fail,   *)
(* snd.woken, snd.ctxdone, upd.added, upd.signalled, and the harness's     *)
(* sendFunc), so that behaviours of this specification can be replayed      *)
(* step by step against the real defaultSender and the observed state      *)
(* (window, token slot, chunks emitted, where each goroutine is) compared  *)
(* after every step.                                                        *)
(***************************************************************************)
EXTENDS Integers, Sequences, FiniteSets, TLC

CONSTANTS W0,       \* initial window
          CH,       \* chunk maximum
          Msg,      \* size of the message to send
          Credits,  \* sequence of window updates the updater applies (0 = ignored by updateWindow)
          MayCancel \* whether the context may end

VARIABLES win,     \* currentWindow (atomic)
          tok,     \* the wake-up channel holds a token
          ctx,     \* "live" | "done"
          spc,     \* sender: start | loaded | waiting | woken | casok | casfail | emit | ctxdone | ret
          sw,      \* the window value the sender loaded
          chunk,   \* the chunk it reserved
          left,    \* bytes of the message not yet emitted
          first,   \* next chunk is the first of the message
          out,     \* chunks emitted: <<len, first>>
          res,     \* result of send: "" | "ok" | "ctx"
          upc,     \* updater: idle | added | signalled
          uprev,   \* window before its add
          ucred    \* updates not yet applied

vars == <<win, tok, ctx, spc, sw, chunk, left, first, out, res, upc, uprev, ucred>>

Min2(a, b) == IF a < b THEN a ELSE b

Init ==
  /\ win = W0 /\ tok = FALSE /\ ctx = "live"
  /\ spc = "start" /\ sw = 0 /\ chunk = 0 /\ left = Msg /\ first = TRUE /\ out = <<>> /\ res = ""
  /\ upc = "idle" /\ uprev = 0 /\ ucred = Credits

\* ---- sender -----------------------------------------------------------------
\* windowSz := s.currentWindow.Load()                        -> yield snd.loaded
SLoad ==
  /\ spc \in {"start", "woken", "casfail"}
  /\ sw' = win /\ spc' = "loaded"
  /\ UNCHANGED <<win, tok, ctx, chunk, left, first, out, res, upc, uprev, ucred>>

\* windowSz == 0: enter the select (blocked, no yield point)
\* windowSz > 0: CompareAndSwap(windowSz, windowSz-chunkSz)  -> yield snd.cas.ok / snd.cas.fail
SDecide ==
  /\ spc = "loaded"
  /\ IF sw = 0
     THEN /\ spc' = "waiting" /\ UNCHANGED <<win, chunk>>
     ELSE LET k == Min2(Min2(sw, left), CH) IN
          IF win = sw
          THEN /\ win' = sw - k /\ chunk' = k /\ spc' = "casok"
          ELSE /\ spc' = "casfail" /\ UNCHANGED <<win, chunk>>
  /\ UNCHANGED <<tok, ctx, sw, left, first, out, res, upc, uprev, ucred>>

\* case <-s.windowUpdates:                                   -> yield snd.woken
SWake ==
  /\ spc = "waiting" /\ tok
  /\ tok' = FALSE /\ spc' = "woken"
  /\ UNCHANGED <<win, ctx, sw, chunk, left, first, out, res, upc, uprev, ucred>>

\* case <-s.ctx.Done():                                      -> yield snd.ctxdone
SCtx ==
  /\ spc = "waiting" /\ ctx = "done"
  /\ spc' = "ctxdone"
  /\ UNCHANGED <<win, tok, ctx, sw, chunk, left, first, out, res, upc, uprev, ucred>>

\* return s.ctx.Err()
SRetCtx ==
  /\ spc = "ctxdone"
  /\ spc' = "ret" /\ res' = "ctx"
  /\ UNCHANGED <<win, tok, ctx, sw, chunk, left, first, out, upc, uprev, ucred>>

\* s.sendFunc(data[:chunkSz], size, first)                   -> the harness's sendFunc is a yield point ("emit")
SEmit ==
  /\ spc = "casok"
  /\ out' = Append(out, <<chunk, first>>) /\ spc' = "emit"
  /\ UNCHANGED <<win, tok, ctx, sw, chunk, left, first, res, upc, uprev, ucred>>

\* if last { return nil }; first = false; data = data[chunkSz:]; next iteration: Load   -> yield snd.loaded
\* (the local bookkeeping and the next atomic load are one step: nothing shared is touched in between)
SAfterEmit ==
  /\ spc = "emit"
  /\ IF chunk = left
     THEN /\ spc' = "ret" /\ res' = "ok" /\ UNCHANGED <<left, first, sw>>
     ELSE /\ spc' = "loaded" /\ sw' = win /\ left' = left - chunk /\ first' = FALSE /\ UNCHANGED res
  /\ UNCHANGED <<win, tok, ctx, chunk, out, upc, uprev, ucred>>

\* ---- updater (updateWindow) ----------------------------------------------------
\* if add == 0 { return }; prevWindow := s.currentWindow.Add(add) - add   -> yield upd.added
UAdd ==
  /\ upc = "idle" /\ ucred # <<>>
  /\ ucred' = Tail(ucred)
  /\ IF Head(ucred) = 0
     THEN UNCHANGED <<win, uprev, upc>>
     ELSE /\ uprev' = win /\ win' = win + Head(ucred) /\ upc' = "added"
  /\ UNCHANGED <<tok, ctx, spc, sw, chunk, left, first, out, res>>

\* if prevWindow == 0 { select { case s.windowUpdates <- struct{}{}: default: } }   -> yield upd.signalled
USignal ==
  /\ upc = "added"
  /\ IF uprev = 0 THEN tok' = TRUE /\ upc' = "signalled" ELSE UNCHANGED tok /\ upc' = "idle"
  /\ UNCHANGED <<win, ctx, spc, sw, chunk, left, first, out, res, uprev, ucred>>

UReturn ==
  /\ upc = "signalled" /\ upc' = "idle"
  /\ UNCHANGED <<win, tok, ctx, spc, sw, chunk, left, first, out, res, uprev, ucred>>

\* ---- context ---------------------------------------------------------------------
Cancel ==
  /\ MayCancel /\ ctx = "live" /\ ctx' = "done"
  /\ UNCHANGED <<win, tok, spc, sw, chunk, left, first, out, res, upc, uprev, ucred>>

Sender == SLoad \/ SDecide \/ SWake \/ SCtx \/ SRetCtx \/ SEmit \/ SAfterEmit
Updater == UAdd \/ USignal \/ UReturn
Next == Sender \/ Updater \/ Cancel

Spec == Init /\ [][Next]_vars /\ WF_vars(Sender) /\ WF_vars(Updater)

\* Stepped semantics (how the replay harness executes): the two steps of the sender that happen
\* without anybody releasing it - leaving the select because a token or the context is ready -
\* are urgent.
Urgent == SWake \/ SCtx
UrgentEnabled == spc = "waiting" /\ (tok \/ ctx = "done")
G_SLoad == ~UrgentEnabled /\ SLoad
G_SDecide == ~UrgentEnabled /\ SDecide
G_SRetCtx == ~UrgentEnabled /\ SRetCtx
G_SEmit == ~UrgentEnabled /\ SEmit
G_SAfterEmit == ~UrgentEnabled /\ SAfterEmit
G_UAdd == ~UrgentEnabled /\ UAdd
G_USignal == ~UrgentEnabled /\ USignal
G_UReturn == ~UrgentEnabled /\ UReturn
G_Cancel == ~UrgentEnabled /\ Cancel
SteppedNext == SWake \/ SCtx \/ G_SLoad \/ G_SDecide \/ G_SRetCtx \/ G_SEmit \/ G_SAfterEmit
               \/ G_UAdd \/ G_USignal \/ G_UReturn \/ G_Cancel
SteppedSpec == Init /\ [][SteppedNext]_vars

-----------------------------------------------------------------------------
SumOut == LET RECURSIVE S(_)
              S(i) == IF i = 0 THEN 0 ELSE out[i][1] + S(i - 1)
          IN S(Len(out))
SumSeq(s) == LET RECURSIVE S(_)
                 S(i) == IF i = 0 THEN 0 ELSE s[i] + S(i - 1)
             IN S(Len(s))
Applied == SumSeq(Credits) - SumSeq(ucred)

TypeOK == win >= 0 /\ left >= 0 /\ chunk >= 0

\* C06: never more on the wire than the window allows: conservation of credit
Conservation == win + (IF spc = "casok" THEN chunk ELSE 0) + SumOut = W0 + Applied

\* C06: chunk cap; C13: the first chunk is marked, chunks add up to the message
ChunkMax == \A i \in 1..Len(out) : out[i][1] <= CH
FramingOK == /\ \A i \in 1..Len(out) : out[i][2] = (i = 1)
             /\ res = "ok" => SumOut = Msg

\* C05: no lost wake-up.  If the sender waits although the window is open, a wake-up is on its
\* way: the token is in the channel, or the updater is between its add and its signal
NoLostWakeup ==
  (spc = "waiting" /\ win > 0 /\ ctx = "live") => (tok \/ upc = "added")

\* C05: the send returns: with enough credit and no cancellation it completes, after a
\* cancellation it returns (possibly completed)
EnoughCredit == W0 + SumSeq(Credits) >= Msg
Completes == (EnoughCredit /\ ~MayCancel) => <>(res = "ok")
CancelReturns == []((ctx = "done" /\ spc = "waiting") => <>(spc # "waiting"))

\* deadlock freedom: nothing enabled => the send has returned, or it legitimately waits for credit
Stuck == ~ENABLED Next
LegitStop == Stuck => (res # "" \/ (spc = "waiting" /\ win = 0 /\ ~tok /\ ucred = <<>> /\ upc = "idle"))
=============================================================================
