SPECIFICATION Spec
CONSTANTS
  W0 = 256
  CH = 16384
  Msg = 320000
  Credits <- Cr_none
  MayCancel = FALSE
CHECK_DEADLOCK FALSE
