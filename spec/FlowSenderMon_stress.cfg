SPECIFICATION Spec
CONSTANTS
  W0 = 65536
  CH = 16384
  Msg = 1600000
  Credits <- Cr_none
  MayCancel = FALSE
CHECK_DEADLOCK FALSE
