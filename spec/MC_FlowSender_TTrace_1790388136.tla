---- MODULE MC_FlowSender_TTrace_1790388136 ----
EXTENDS Sequences, TLCExt, Toolbox, Naturals, TLC, MC_FlowSender

_expression ==
    LET MC_FlowSender_TEExpression == INSTANCE MC_FlowSender_TEExpression
    IN MC_FlowSender_TEExpression!expression
----

_trace ==
    LET MC_FlowSender_TETrace == INSTANCE MC_FlowSender_TETrace
    IN MC_FlowSender_TETrace!trace
----

_inv ==
    ~(
        TLCGet("level") = Len(_TETrace)
        /\
        res = ("ok")
        /\
        sw = (1)
        /\
        ctx = ("live")
        /\
        spc = ("ret")
        /\
        chunk = (1)
        /\
        upc = ("idle")
        /\
        uprev = (2)
        /\
        out = (<<<<2, TRUE>>, <<2, FALSE>>, <<1, FALSE>>>>)
        /\
        tok = (TRUE)
        /\
        left = (1)
        /\
        ucred = (<<>>)
        /\
        win = (0)
        /\
        first = (FALSE)
    )
----

_init ==
    /\ ucred = _TETrace[1].ucred
    /\ ctx = _TETrace[1].ctx
    /\ chunk = _TETrace[1].chunk
    /\ uprev = _TETrace[1].uprev
    /\ out = _TETrace[1].out
    /\ tok = _TETrace[1].tok
    /\ win = _TETrace[1].win
    /\ res = _TETrace[1].res
    /\ left = _TETrace[1].left
    /\ sw = _TETrace[1].sw
    /\ first = _TETrace[1].first
    /\ spc = _TETrace[1].spc
    /\ upc = _TETrace[1].upc
----

_next ==
    /\ \E i,j \in DOMAIN _TETrace:
        /\ \/ /\ j = i + 1
              /\ i = TLCGet("level")
        /\ ucred  = _TETrace[i].ucred
        /\ ucred' = _TETrace[j].ucred
        /\ ctx  = _TETrace[i].ctx
        /\ ctx' = _TETrace[j].ctx
        /\ chunk  = _TETrace[i].chunk
        /\ chunk' = _TETrace[j].chunk
        /\ uprev  = _TETrace[i].uprev
        /\ uprev' = _TETrace[j].uprev
        /\ out  = _TETrace[i].out
        /\ out' = _TETrace[j].out
        /\ tok  = _TETrace[i].tok
        /\ tok' = _TETrace[j].tok
        /\ win  = _TETrace[i].win
        /\ win' = _TETrace[j].win
        /\ res  = _TETrace[i].res
        /\ res' = _TETrace[j].res
        /\ left  = _TETrace[i].left
        /\ left' = _TETrace[j].left
        /\ sw  = _TETrace[i].sw
        /\ sw' = _TETrace[j].sw
        /\ first  = _TETrace[i].first
        /\ first' = _TETrace[j].first
        /\ spc  = _TETrace[i].spc
        /\ spc' = _TETrace[j].spc
        /\ upc  = _TETrace[i].upc
        /\ upc' = _TETrace[j].upc

\* Uncomment the ASSUME below to write the states of the error trace
\* to the given file in Json format. Note that you can pass any tuple
\* to `JsonSerialize`. For example, a sub-sequence of _TETrace.
    \* ASSUME
    \*     LET J == INSTANCE Json
    \*         IN J!JsonSerialize("MC_FlowSender_TTrace_1790388136.json", _TETrace)

=============================================================================

 Note that you can extract this module `MC_FlowSender_TEExpression`
  to a dedicated file to reuse `expression` (the module in the 
  dedicated `MC_FlowSender_TEExpression.tla` file takes precedence 
  over the module `MC_FlowSender_TEExpression` below).

---- MODULE MC_FlowSender_TEExpression ----
EXTENDS Sequences, TLCExt, Toolbox, Naturals, TLC, MC_FlowSender

expression == 
    [
        \* To hide variables of the `MC_FlowSender` spec from the error trace,
        \* remove the variables below.  The trace will be written in the order
        \* of the fields of this record.
        ucred |-> ucred
        ,ctx |-> ctx
        ,chunk |-> chunk
        ,uprev |-> uprev
        ,out |-> out
        ,tok |-> tok
        ,win |-> win
        ,res |-> res
        ,left |-> left
        ,sw |-> sw
        ,first |-> first
        ,spc |-> spc
        ,upc |-> upc
        
        \* Put additional constant-, state-, and action-level expressions here:
        \* ,_stateNumber |-> _TEPosition
        \* ,_ucredUnchanged |-> ucred = ucred'
        
        \* Format the `ucred` variable as Json value.
        \* ,_ucredJson |->
        \*     LET J == INSTANCE Json
        \*     IN J!ToJson(ucred)
        
        \* Lastly, you may build expressions over arbitrary sets of states by
        \* leveraging the _TETrace operator.  For example, this is how to
        \* count the number of times a spec variable changed up to the current
        \* state in the trace.
        \* ,_ucredModCount |->
        \*     LET F[s \in DOMAIN _TETrace] ==
        \*         IF s = 1 THEN 0
        \*         ELSE IF _TETrace[s].ucred # _TETrace[s-1].ucred
        \*             THEN 1 + F[s-1] ELSE F[s-1]
        \*     IN F[_TEPosition - 1]
    ]

=============================================================================



Parsing and semantic processing can take forever if the trace below is long.
 In this case, it is advised to uncomment the module below to deserialize the
 trace from a generated binary file.

\*
\*---- MODULE MC_FlowSender_TETrace ----
\*EXTENDS IOUtils, TLC, MC_FlowSender
\*
\*trace == IODeserialize("MC_FlowSender_TTrace_1790388136.bin", TRUE)
\*
\*=============================================================================
\*

---- MODULE MC_FlowSender_TETrace ----
EXTENDS TLC, MC_FlowSender

trace == 
    <<
    ([res |-> "",sw |-> 0,ctx |-> "live",spc |-> "start",chunk |-> 0,upc |-> "idle",uprev |-> 0,out |-> <<>>,tok |-> FALSE,left |-> 5,ucred |-> <<1, 1, 1, 1>>,win |-> 1,first |-> TRUE]),
    ([res |-> "",sw |-> 0,ctx |-> "live",spc |-> "start",chunk |-> 0,upc |-> "added",uprev |-> 1,out |-> <<>>,tok |-> FALSE,left |-> 5,ucred |-> <<1, 1, 1>>,win |-> 2,first |-> TRUE]),
    ([res |-> "",sw |-> 2,ctx |-> "live",spc |-> "loaded",chunk |-> 0,upc |-> "added",uprev |-> 1,out |-> <<>>,tok |-> FALSE,left |-> 5,ucred |-> <<1, 1, 1>>,win |-> 2,first |-> TRUE]),
    ([res |-> "",sw |-> 2,ctx |-> "live",spc |-> "casok",chunk |-> 2,upc |-> "added",uprev |-> 1,out |-> <<>>,tok |-> FALSE,left |-> 5,ucred |-> <<1, 1, 1>>,win |-> 0,first |-> TRUE]),
    ([res |-> "",sw |-> 2,ctx |-> "live",spc |-> "casok",chunk |-> 2,upc |-> "idle",uprev |-> 1,out |-> <<>>,tok |-> FALSE,left |-> 5,ucred |-> <<1, 1, 1>>,win |-> 0,first |-> TRUE]),
    ([res |-> "",sw |-> 2,ctx |-> "live",spc |-> "emit",chunk |-> 2,upc |-> "idle",uprev |-> 1,out |-> <<<<2, TRUE>>>>,tok |-> FALSE,left |-> 5,ucred |-> <<1, 1, 1>>,win |-> 0,first |-> TRUE]),
    ([res |-> "",sw |-> 2,ctx |-> "live",spc |-> "emit",chunk |-> 2,upc |-> "added",uprev |-> 0,out |-> <<<<2, TRUE>>>>,tok |-> FALSE,left |-> 5,ucred |-> <<1, 1>>,win |-> 1,first |-> TRUE]),
    ([res |-> "",sw |-> 2,ctx |-> "live",spc |-> "emit",chunk |-> 2,upc |-> "signalled",uprev |-> 0,out |-> <<<<2, TRUE>>>>,tok |-> TRUE,left |-> 5,ucred |-> <<1, 1>>,win |-> 1,first |-> TRUE]),
    ([res |-> "",sw |-> 2,ctx |-> "live",spc |-> "emit",chunk |-> 2,upc |-> "idle",uprev |-> 0,out |-> <<<<2, TRUE>>>>,tok |-> TRUE,left |-> 5,ucred |-> <<1, 1>>,win |-> 1,first |-> TRUE]),
    ([res |-> "",sw |-> 2,ctx |-> "live",spc |-> "emit",chunk |-> 2,upc |-> "added",uprev |-> 1,out |-> <<<<2, TRUE>>>>,tok |-> TRUE,left |-> 5,ucred |-> <<1>>,win |-> 2,first |-> TRUE]),
    ([res |-> "",sw |-> 2,ctx |-> "live",spc |-> "emit",chunk |-> 2,upc |-> "idle",uprev |-> 1,out |-> <<<<2, TRUE>>>>,tok |-> TRUE,left |-> 5,ucred |-> <<1>>,win |-> 2,first |-> TRUE]),
    ([res |-> "",sw |-> 2,ctx |-> "live",spc |-> "emit",chunk |-> 2,upc |-> "added",uprev |-> 2,out |-> <<<<2, TRUE>>>>,tok |-> TRUE,left |-> 5,ucred |-> <<>>,win |-> 3,first |-> TRUE]),
    ([res |-> "",sw |-> 3,ctx |-> "live",spc |-> "loaded",chunk |-> 2,upc |-> "added",uprev |-> 2,out |-> <<<<2, TRUE>>>>,tok |-> TRUE,left |-> 3,ucred |-> <<>>,win |-> 3,first |-> FALSE]),
    ([res |-> "",sw |-> 3,ctx |-> "live",spc |-> "casok",chunk |-> 2,upc |-> "added",uprev |-> 2,out |-> <<<<2, TRUE>>>>,tok |-> TRUE,left |-> 3,ucred |-> <<>>,win |-> 1,first |-> FALSE]),
    ([res |-> "",sw |-> 3,ctx |-> "live",spc |-> "emit",chunk |-> 2,upc |-> "added",uprev |-> 2,out |-> <<<<2, TRUE>>, <<2, FALSE>>>>,tok |-> TRUE,left |-> 3,ucred |-> <<>>,win |-> 1,first |-> FALSE]),
    ([res |-> "",sw |-> 1,ctx |-> "live",spc |-> "loaded",chunk |-> 2,upc |-> "added",uprev |-> 2,out |-> <<<<2, TRUE>>, <<2, FALSE>>>>,tok |-> TRUE,left |-> 1,ucred |-> <<>>,win |-> 1,first |-> FALSE]),
    ([res |-> "",sw |-> 1,ctx |-> "live",spc |-> "casok",chunk |-> 1,upc |-> "added",uprev |-> 2,out |-> <<<<2, TRUE>>, <<2, FALSE>>>>,tok |-> TRUE,left |-> 1,ucred |-> <<>>,win |-> 0,first |-> FALSE]),
    ([res |-> "",sw |-> 1,ctx |-> "live",spc |-> "emit",chunk |-> 1,upc |-> "added",uprev |-> 2,out |-> <<<<2, TRUE>>, <<2, FALSE>>, <<1, FALSE>>>>,tok |-> TRUE,left |-> 1,ucred |-> <<>>,win |-> 0,first |-> FALSE]),
    ([res |-> "ok",sw |-> 1,ctx |-> "live",spc |-> "ret",chunk |-> 1,upc |-> "added",uprev |-> 2,out |-> <<<<2, TRUE>>, <<2, FALSE>>, <<1, FALSE>>>>,tok |-> TRUE,left |-> 1,ucred |-> <<>>,win |-> 0,first |-> FALSE]),
    ([res |-> "ok",sw |-> 1,ctx |-> "live",spc |-> "ret",chunk |-> 1,upc |-> "idle",uprev |-> 2,out |-> <<<<2, TRUE>>, <<2, FALSE>>, <<1, FALSE>>>>,tok |-> TRUE,left |-> 1,ucred |-> <<>>,win |-> 0,first |-> FALSE])
    >>
----


=============================================================================

---- CONFIG MC_FlowSender_TTrace_1790388136 ----
CONSTANTS
    W0 = 1
    CH = 2
    Msg = 5
    Credits <- Cr_b
    MayCancel = FALSE

INVARIANT
    _inv

CHECK_DEADLOCK
    \* CHECK_DEADLOCK off because of PROPERTY or INVARIANT above.
    FALSE

INIT
    _init

NEXT
    _next

CONSTANT
    _TETrace <- _trace

ALIAS
    _expression
=============================================================================
\* Generated on Sat Sep 26 02:02:17 UTC 2026