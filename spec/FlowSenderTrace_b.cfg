SPECIFICATION TSpec
CONSTANTS
  W0 = 1
  CH = 2
  Msg = 5
  Credits <- Cr_b
  MayCancel = FALSE
CHECK_DEADLOCK FALSE
INVARIANTS TypeOK Conservation ChunkMax FramingOK NoLostWakeup LegitStop
