------------------------- MODULE GrpcTimeoutTrace -------------------------
(* Validates the deadlines observed inside real handlers (one log line per *)
(* input) against the reference function of GrpcTimeout.tla.               *)
EXTENDS GrpcTimeout, TLC, Json, IOUtils, SequencesExt

Trace == ndJsonDeserialize(IOEnv.VERIF_TRACE)

VARIABLES l, viol
vars == <<l, viol>>

Ev == Trace[l]
Obs(e) == [hasdl |-> e.hasdl, neg |-> e.neg, d |-> <<e.h, e.m, e.s, e.ns>>]

Formulas(e) == [
  C18_Exact |-> C18_Exact(e.vals, Obs(e)),
  C18_Saturates |-> C18_Saturates(e.vals, Obs(e)),
  C18_MalformedNeverShortens |-> C18_MalformedNeverShortens(e.vals, Obs(e)) ]

\* classification for the known-findings list
Detail(n, e) == ""

Init == l = 1 /\ viol = {}
Next ==
  /\ l <= Len(Trace)
  /\ l' = l + 1
  /\ IF Ev.ev = "end"
     THEN /\ JsonSerialize(IOEnv.VERIF_OUT, [violations |-> SetToSeq(viol), lines |-> l])
          /\ UNCHANGED viol
     ELSE IF Ev.ev = "gt"
     THEN LET F == Formulas(Ev) IN
          viol' = viol \cup { <<Ev.idx, n, l, Detail(n, Ev)>> : n \in { m \in DOMAIN F : ~F[m] } }
     ELSE UNCHANGED viol
Spec == Init /\ [][Next]_vars
=============================================================================
