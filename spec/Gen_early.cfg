SPECIFICATION GenSpec
CONSTANTS
  W = 8
  CH = 2
  RPCs <- Two
  CScript <- G_early
  SScript <- GS_early
  Faults <- AllFaults4
  MaxFaults = 1
  Stepped = TRUE
  Dir = "fwd"
CHECK_DEADLOCK FALSE
INVARIANTS PrintSched
