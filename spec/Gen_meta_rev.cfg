SPECIFICATION GenSpec
CONSTANTS
  W = 8
  CH = 2
  RPCs <- One
  CScript <- G_meta
  SScript <- GS_meta
  Faults <- AllFaults4
  MaxFaults = 1
  Stepped = TRUE
  Dir = "rev"
CHECK_DEADLOCK FALSE
INVARIANTS PrintSched
