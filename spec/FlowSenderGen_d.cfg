SPECIFICATION SteppedSpec
CONSTANTS
  W0 = 3
  CH = 2
  Msg = 4
  Credits <- Cr_none
  MayCancel = TRUE
CHECK_DEADLOCK FALSE
