---------------------------- MODULE MC_TunnelGen ----------------------------
(***************************************************************************)
(* Schedule generator: behaviours of Tunnel.tla under the stepped           *)
(* semantics (exactly what the harness can execute: one driver action, then *)
(* every goroutine runs until all are blocked) with the real ratio of       *)
(* window to chunk size (W = 8, CH = 2: one unit = 8192 bytes).  The        *)
(* variable sched records the driver actions; TLC's simulation mode prints  *)
(* it at the end of each behaviour and the harness replays it against the   *)
(* real library (spec -> implementation), the recording being validated by  *)
(* the trace specification like any other.                                  *)
(***************************************************************************)
EXTENDS MC_Tunnel, Json

VARIABLE sched
gvars == <<vars, sched>>

GenInit == Init /\ sched = <<>>

Inr(A) == A /\ UNCHANGED sched
Drv(A, label) == DrvOK /\ A /\ sched' = Append(sched, label)

GenNext ==
  \/ Inr(\E r \in RPCs : CliSkipOp(r) \/ SrvSkipOp(r) \/ CliAlloc(r) \/ CliSendNew(r) \/ CliNewRet(r) \/ CliNewFail(r) \/ CliSendNewFail(r)
                       \/ CliReserve(r) \/ CliEmit(r) \/ CliEmitFail(r) \/ CliSendAbort(r) \/ CliSendRet(r) \/ CliBadSendRet(r) \/ CliHalf(r) \/ CliHalfRet(r)
                       \/ CliDequeue(r) \/ CliCredit(r) \/ CliRecvMsgRet(r) \/ CliRecvEnd(r) \/ CliFinStep(r) \/ CliWatchFire(r)
                       \/ CliCancelCAS(r) \/ CliCancelRcv(r) \/ CliEmitCancel(r) \/ CliHeaderRet(r) \/ CliTrailerRet(r) \/ SrvMetaDo(r) \/ SrvMetaRet(r) \/ HandlerStart(r) \/ SrvEmitReject(r)
                       \/ SrvEmitHdr(r) \/ SrvReserve(r) \/ SrvEmit(r) \/ SrvSendAbort(r) \/ SrvSendRet(r) \/ SrvRecvCtx(r)
                       \/ SrvDequeue(r) \/ SrvCredit(r) \/ SrvRecvMsgRet(r) \/ SrvRecvEnd(r) \/ SrvFinStep(r, "L")
                       \/ SrvFinStep(r, "H") \/ HandlerRetDone(r) \/ SrvEmitClose(r) \/ SrvWatchFire(r))
  \/ Inr(CliCloseDo) \/ Inr(SrvServeExit) \/ Inr(CliFailDo) \/ Inr(SrvFailExit) \/ Inr(RevHandlerReturn) \/ Inr(Quiesce)
  \/ \E r \in RPCs : Drv(CliOpStart(r), <<"cop", r, COp(r).op, COp(r).n>>)
  \/ \E r \in RPCs : Drv(SrvOpStart(r), <<"sop", r, SOp(r).op, IF SOp(r).op = "ret" THEN SOp(r).code ELSE SOp(r).n>>)
  \/ \E r \in RPCs : Drv(Cancel(r), <<"cancel", r, "", 0>>)
  \/ Drv(CliDeliver, <<"deliver", 0, "s2c", 0>>)
  \/ Drv(SrvDeliver, <<"deliver", 0, "c2s", 0>>)
  \/ Drv(CtlClose, <<"close", 0, "", 0>>)
  \/ Drv(Shutdown, <<"shutdown", 0, "", 0>>)
  \/ Drv(CarFail, <<"carfail", 0, "", 0>>)

GenSpec == GenInit /\ [][GenNext]_gvars

\* printed once per behaviour, when nothing more can happen
GenTerminal == ~ENABLED GenNext
PrintSched == GenTerminal => PrintT("SCHED " \o ToJson(sched))

=============================================================================
