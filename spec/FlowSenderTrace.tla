-------------------------- MODULE FlowSenderTrace --------------------------
(***************************************************************************)
(* Validates step-by-step recordings of the REAL defaultSender against      *)
(* FlowSender.tla.  Three real goroutines (a sender, an updater, a          *)
(* canceller) are stepped through the yield gates by the harness along      *)
(* schedules that TLC generated from the state graph of FlowSender (every   *)
(* transition of the stepped semantics is covered by some schedule).        *)
(* After every step the recorded window value, token-slot occupancy,        *)
(* number and size of chunks emitted, result, and the place where each      *)
(* goroutine stands must equal the model state, and the invariants of       *)
(* FlowSender are evaluated on it.                                          *)
(*                                                                         *)
(* Steps the sender takes on its own (leaving the select once a token or    *)
(* the context is ready) are silent steps of this specification.            *)
(***************************************************************************)
EXTENDS FlowSender, Json, IOUtils, SequencesExt

Trace == ndJsonDeserialize(IOEnv.VERIF_TRACE)

VARIABLES l      \* position in Trace
tvars == <<l, vars>>

Ev == Trace[l]

\* the current state equals what was observed after event e
Matches(e) ==
  /\ win = e.win /\ tok = e.tok /\ spc = e.spc /\ upc = e.upc /\ Len(out) = e.nout /\ res = e.res
  /\ e.nout > 0 => out[e.nout][1] = e.lastlen

Act(a) ==
  CASE a = "SLoad" -> SLoad [] a = "SDecide" -> SDecide [] a = "SRetCtx" -> SRetCtx [] a = "SEmit" -> SEmit
    [] a = "SAfterEmit" -> SAfterEmit [] a = "UAdd" -> UAdd [] a = "USignal" -> USignal [] a = "UReturn" -> UReturn
    [] a = "Cancel" -> Cancel

TInit == l = 1 /\ Init

HW == IF TLCGet(1) < l THEN TLCSet(1, l) /\ PrintT(<<"HW", l>>) ELSE TRUE

TNext ==
  \/ \* a spontaneous step of the sender
     /\ UrgentEnabled /\ Urgent /\ UNCHANGED l
  \/ /\ l <= Len(Trace) /\ HW
     /\ l > 1 /\ Trace[l - 1].ev = "fs" => Matches(Trace[l - 1])
     /\ l' = l + 1
     /\ CASE Ev.ev = "reset" ->
               /\ win' = W0 /\ tok' = FALSE /\ ctx' = "live"
               /\ spc' = "start" /\ sw' = 0 /\ chunk' = 0 /\ left' = Msg /\ first' = TRUE /\ out' = <<>> /\ res' = ""
               /\ upc' = "idle" /\ uprev' = 0 /\ ucred' = Credits
          [] Ev.ev = "fs" -> Act(Ev.act)
          [] Ev.ev = "end" -> /\ JsonSerialize(IOEnv.VERIF_OUT, [lines |-> l]) /\ UNCHANGED vars

TSpec == TInit /\ [][TNext]_tvars
ASSUME TLCSet(1, 0)
=============================================================================
