SPECIFICATION SteppedSpec
CONSTANTS
  W0 = 1
  CH = 2
  Msg = 5
  Credits <- Cr_b
  MayCancel = FALSE
CHECK_DEADLOCK FALSE
