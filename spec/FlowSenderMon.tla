---------------------------- MODULE FlowSenderMon ----------------------------
(***************************************************************************)
(* Monitor for step-by-step recordings of the real flow-control sender:     *)
(* the C05/C06 formulas evaluated directly on the OBSERVED state after every *)
(* step (window value, wake-up slot, chunks emitted, where the goroutines   *)
(* stand), independent of whether the implementation still follows the      *)
(* algorithm of FlowSender.tla step by step (that is checked separately by  *)
(* FlowSenderTrace; a mere divergence is not an alarm).                     *)
(***************************************************************************)
EXTENDS Integers, Sequences, TLC, Json, IOUtils, SequencesExt

CONSTANTS W0, CH, Msg, Credits, MayCancel

Trace == ndJsonDeserialize(IOEnv.VERIF_TRACE)

VARIABLES l, o, applied, k, sum, cancelled, idx, viol
vars == <<l, o, applied, k, sum, cancelled, idx, viol>>

Ev == Trace[l]
O0 == [win |-> W0, tok |-> FALSE, spc |-> "start", upc |-> "idle", nout |-> 0, lastlen |-> 0, res |-> "", exact |-> TRUE]

Init == l = 1 /\ o = O0 /\ applied = 0 /\ k = 0 /\ sum = 0 /\ cancelled = FALSE /\ idx = -1 /\ viol = {}

\* credit is conserved: window + emitted (+ a reserved chunk) = initial window + updates applied
C05_CreditConserved ==
  /\ o.exact
  /\ IF o.spc = "casok"
     THEN o.win + sum <= W0 + applied /\ o.win + sum + CH >= W0 + applied
     ELSE o.win + sum = W0 + applied
\* no lost wake-up: a sender that waits although the window is open has a token waiting or an
\* updater about to signal (observations are taken when every goroutine is blocked)
C05_NoLostWakeup == (o.spc = "waiting" /\ o.win > 0 /\ ~cancelled) => (o.tok \/ o.upc = "added")
\* a sender whose context ended does not stay in the wait
C05_CancelWakes == ~(o.spc = "waiting" /\ cancelled)
C06_ChunkMax == o.lastlen <= CH
C13_ChunksAddUp == o.res = "ok" => sum = Msg
C05_ResultSane == o.res \in {"", "ok", "ctx"} /\ (o.res = "ctx" => cancelled)

Formulas == [C05_CreditConserved |-> C05_CreditConserved, C05_NoLostWakeup |-> C05_NoLostWakeup,
             C05_CancelWakes |-> C05_CancelWakes, C06_ChunkMax |-> C06_ChunkMax, C13_ChunksAddUp |-> C13_ChunksAddUp,
             C05_ResultSane |-> C05_ResultSane]
NewViol == LET F == Formulas IN
           { <<idx, n, l - 1, "">> : n \in { m \in DOMAIN F : ~F[m] /\ ~\E v \in viol : v[1] = idx /\ v[2] = m } }

Next ==
  /\ l <= Len(Trace)
  /\ l' = l + 1
  /\ CASE Ev.ev = "end" ->
            /\ JsonSerialize(IOEnv.VERIF_OUT, [violations |-> SetToSeq(viol \cup NewViol), lines |-> l])
            /\ UNCHANGED <<o, applied, k, sum, cancelled, idx, viol>>
       [] Ev.ev = "reset" ->
            /\ viol' = viol \cup NewViol
            /\ o' = O0 /\ applied' = 0 /\ k' = 0 /\ sum' = 0 /\ cancelled' = FALSE /\ idx' = Ev.idx
       [] Ev.ev = "fsum" ->
            \* a free-running round (no gates, real parallelism), observed once everything has settled:
            \* the window read from the sender, the bytes it emitted, the credit the peer granted
            /\ viol' = viol \cup NewViol
            /\ o' = [win |-> Ev.win, tok |-> FALSE, spc |-> "ret", upc |-> "idle", nout |-> Ev.nout, lastlen |-> Ev.maxchunk,
                     res |-> Ev.res, exact |-> TRUE]
            /\ applied' = Ev.applied /\ sum' = Ev.emitted
            /\ UNCHANGED <<k, cancelled, idx>>
       [] Ev.ev = "fs" ->
            /\ viol' = viol \cup NewViol
            /\ o' = [win |-> Ev.win, tok |-> Ev.tok, spc |-> Ev.spc, upc |-> Ev.upc, nout |-> Ev.nout, lastlen |-> Ev.lastlen,
                     res |-> Ev.res, exact |-> Ev.exact]
            /\ k' = IF Ev.act = "UAdd" THEN k + 1 ELSE k
            /\ applied' = IF Ev.act = "UAdd" /\ k + 1 <= Len(Credits) THEN applied + Credits[k + 1] ELSE applied
            /\ sum' = IF Ev.nout > o.nout THEN sum + Ev.lastlen ELSE sum
            /\ cancelled' = (cancelled \/ Ev.act = "Cancel")
            /\ UNCHANGED idx
Spec == Init /\ [][Next]_vars
=============================================================================
