// Package sim is an in-memory rendering of the gRPC bidi stream that carries a
// tunnel ("carrier"). Both directions are FIFOs of marshalled frames that are
// held until the driver releases them, so that a driver decides exactly when the
// receiving endpoint sees each frame. Every frame put on or taken off the
// carrier is logged.
package sim

import (
	"context"
	"errors"
	"io"
	"net"
	"sync"

	"google.golang.org/grpc/codes"
	"google.golang.org/grpc/metadata"
	"google.golang.org/grpc/peer"
	"google.golang.org/grpc/status"
	"google.golang.org/protobuf/proto"

	"verif/harness/tr"
)

// Options configure one carrier.
type Options struct {
	T       int     // tunnel number used in events
	Reverse bool    // OpenReverseTunnel (network client is the tunnel server)
	Cap     int     // capacity of each direction in frames; 0 = unbounded
	Auto    bool    // release frames as soon as they are sent
	Log     *tr.Log // event log
	// Yield, if set, is called after a frame has been put on the carrier and
	// before Send returns to the library (point "car.sent.<dir>.<kind>"): a
	// driver can hold the sender there, as a slow transport write would.
	Yield func(point string, sid int64)
	// ServerCtx, if set, decorates the network server's stream context (as
	// server interceptors do).
	ServerCtx func(context.Context) context.Context
	// ServerHeader is what the network server end answers as response header
	// when it is played raw (nil = none).
	PeerAddr string
}

type pipe struct {
	name     string // "c2s" or "s2c" (tunnel roles, not network roles)
	q        [][]byte
	descs    []tr.E // description of each queued frame
	sent     int
	taken    int
	released int
	closed   bool // sending side ended cleanly; receiver drains, then sees the end
}

func (p *pipe) ready(auto bool) bool {
	return len(p.q) > 0 && (auto || p.released > p.taken)
}

// Carrier is one in-memory tunnel-carrying stream.
type Carrier struct {
	o    Options
	mu   sync.Mutex
	cond *sync.Cond

	up, down *pipe // up: network client -> network server

	cliCtx    context.Context // the context the stream was opened with
	strCtx    context.Context // client stream context (ends when the client saw the end)
	strCancel context.CancelFunc
	srvCtx    context.Context
	srvCancel context.CancelFunc

	hdr        metadata.MD
	hdrReady   bool
	handlerEnd bool
	cliSending int // network-client SendMsg calls in progress
	// failNext[end] = frame kind whose next Send from that end ("cli" / "srv") fails with io.EOF although the
	// stream is otherwise healthy (as when gRPC's transport already knows the stream is broken, Recv does not yet)
	failNext map[string]string
	handlerErr error
	failed     error // transport failure: both ends fail at once, frames are lost
	cliSawEnd  bool

	stopAfter func() bool
}

// New creates a carrier opened by a network client with context ctx (carrying
// the outgoing metadata of the opening call).
func New(ctx context.Context, o Options) *Carrier {
	c := &Carrier{o: o, cliCtx: ctx}
	c.cond = sync.NewCond(&c.mu)
	if o.Reverse {
		c.up, c.down = &pipe{name: "s2c"}, &pipe{name: "c2s"}
	} else {
		c.up, c.down = &pipe{name: "c2s"}, &pipe{name: "s2c"}
	}
	c.strCtx, c.strCancel = context.WithCancel(ctx)
	md, _ := metadata.FromOutgoingContext(ctx)
	sctx := metadata.NewIncomingContext(context.WithoutCancel(ctx), md.Copy())
	// the server side does not see the client's outgoing metadata as outgoing
	sctx = metadata.NewOutgoingContext(sctx, nil)
	addr := o.PeerAddr
	if addr == "" {
		addr = "10.0.0.1:1234"
	}
	sctx = peer.NewContext(sctx, &peer.Peer{Addr: fakeAddr(addr)})
	if o.ServerCtx != nil {
		sctx = o.ServerCtx(sctx)
	}
	c.srvCtx, c.srvCancel = context.WithCancel(sctx)
	c.stopAfter = context.AfterFunc(ctx, func() {
		c.mu.Lock()
		defer c.mu.Unlock()
		c.emit("car", tr.E{"what": "ctxdone"})
		c.srvCancel()
		c.cond.Broadcast()
	})
	return c
}

type fakeAddr string

func (a fakeAddr) Network() string { return "sim" }
func (a fakeAddr) String() string  { return string(a) }

var _ net.Addr = fakeAddr("")

func (c *Carrier) emit(ev string, f tr.E) {
	if c.o.Log == nil {
		return
	}
	f["t"] = c.o.T
	c.o.Log.Emit(ev, f)
}

func (c *Carrier) pipeByName(name string) *pipe {
	if c.up.name == name {
		return c.up
	}
	return c.down
}

// ServerContext is the context of the network server's stream.
func (c *Carrier) ServerContext() context.Context { return c.srvCtx }

// Pending reports, for wire direction dir ("c2s"/"s2c"), how many frames are
// queued and how many of them are released but not yet taken.
func (c *Carrier) Pending(dir string) (queued, released int) {
	c.mu.Lock()
	defer c.mu.Unlock()
	p := c.pipeByName(dir)
	return len(p.q), p.released - p.taken
}

// Release lets the receiving end of direction dir take one more frame. It
// reports false if every queued frame is already released.
func (c *Carrier) Release(dir string) bool {
	c.mu.Lock()
	defer c.mu.Unlock()
	p := c.pipeByName(dir)
	if p.released-p.taken >= len(p.q) {
		return false
	}
	p.released++
	c.cond.Broadcast()
	return true
}

// Discard takes the head frame of direction dir off the carrier on behalf of a
// raw (driver-played) receiving end and returns it marshalled.
func (c *Carrier) Discard(dir string) ([]byte, bool) {
	c.mu.Lock()
	defer c.mu.Unlock()
	p := c.pipeByName(dir)
	if len(p.q) == 0 {
		return nil, false
	}
	b := p.q[0]
	p.q = p.q[1:]
	p.taken++
	if p.released < p.taken {
		p.released = p.taken
	}
	c.emit("wire.recv", recvEvent(p, true))
	c.cond.Broadcast()
	return b, true
}

// Fail breaks the transport: both ends fail with Unavailable, frames in flight
// are lost.
func (c *Carrier) Fail() {
	c.mu.Lock()
	defer c.mu.Unlock()
	if c.failed != nil {
		return
	}
	c.failed = status.Error(codes.Unavailable, "transport is closing")
	c.emit("car", tr.E{"what": "fail"})
	c.srvCancel()
	c.cond.Broadcast()
}

// ServerGone ends the network server's side (as when the server process shuts
// down and aborts its streams): its stream context is cancelled, so its Recv
// and Send fail and its handler returns; frames already on their way to the
// client remain deliverable and the client then sees the handler's status.
func (c *Carrier) ServerGone() {
	c.mu.Lock()
	defer c.mu.Unlock()
	c.emit("car", tr.E{"what": "srvgone"})
	c.srvCancel()
	c.cond.Broadcast()
}

// HandlerReturned records that the network server's handler returned err.
func (c *Carrier) HandlerReturned(err error) {
	c.mu.Lock()
	defer c.mu.Unlock()
	if c.handlerEnd {
		return
	}
	c.handlerEnd = true
	c.handlerErr = err
	c.hdrReady = true
	c.down.closed = true
	code := codes.OK
	if err != nil {
		code = status.Convert(err).Code()
		if errors.Is(err, context.Canceled) {
			code = codes.Canceled
		} else if errors.Is(err, context.DeadlineExceeded) {
			code = codes.DeadlineExceeded
		}
	}
	c.emit("car", tr.E{"what": "handlerReturn", "code": int(code)})
	c.srvCancel()
	c.cond.Broadcast()
}

func ctxStatus(err error) error {
	switch {
	case errors.Is(err, context.DeadlineExceeded):
		return status.Error(codes.DeadlineExceeded, err.Error())
	default:
		return status.Error(codes.Canceled, err.Error())
	}
}

func (c *Carrier) handlerStatus() error {
	err := c.handlerErr
	if err == nil {
		return io.EOF
	}
	if _, ok := status.FromError(err); ok {
		return err
	}
	if errors.Is(err, context.Canceled) || errors.Is(err, context.DeadlineExceeded) {
		return ctxStatus(err)
	}
	return status.Error(codes.Unknown, err.Error())
}

// ---- network client end ----------------------------------------------------

func (c *Carrier) cliSend(m proto.Message, desc func(proto.Message) tr.E) error {
	point, sid, err := c.cliSendLocked(m, desc)
	if err == nil && point != "" && c.o.Yield != nil {
		c.o.Yield(point, sid)
	}
	return err
}

// FailNextSend makes the next Send of a frame of the given kind from the given network end ("cli" / "srv") fail.
func (c *Carrier) FailNextSend(end, kind string) {
	c.mu.Lock()
	defer c.mu.Unlock()
	if c.failNext == nil {
		c.failNext = map[string]string{}
	}
	c.failNext[end] = kind
	c.emit("car", tr.E{"what": "failnext", "end": end, "kind": kind})
}

func (c *Carrier) sendFails(end string, m proto.Message, desc func(proto.Message) tr.E) bool {
	k := c.failNext[end]
	if k == "" || desc == nil {
		return false
	}
	if kind, _ := desc(m)["kind"].(string); kind == k {
		delete(c.failNext, end)
		c.emit("car", tr.E{"what": "sendfailed", "end": end, "kind": k})
		return true
	}
	return false
}

func (c *Carrier) cliSendLocked(m proto.Message, desc func(proto.Message) tr.E) (string, int64, error) {
	c.mu.Lock()
	defer c.mu.Unlock()
	if c.sendFails("cli", m, desc) {
		return "", 0, io.EOF
	}
	// gRPC's contract for a client stream: no two SendMsg at once, and no CloseSend while a SendMsg is in
	// progress (a SendMsg waiting for transport capacity is in progress). The carrier reports violations.
	if c.cliSending > 0 {
		c.emit("car", tr.E{"what": "contract", "detail": "concurrent-sends"})
	}
	c.cliSending++
	defer func() { c.cliSending-- }()
	for {
		if err := c.cliCtx.Err(); err != nil {
			return "", 0, ctxStatus(err)
		}
		if c.failed != nil {
			return "", 0, io.EOF
		}
		if c.handlerEnd || c.cliSawEnd {
			return "", 0, io.EOF
		}
		if c.up.closed {
			return "", 0, status.Error(codes.Internal, "SendMsg called after CloseSend")
		}
		if c.o.Cap == 0 || len(c.up.q) < c.o.Cap {
			break
		}
		c.cond.Wait()
	}
	b, err := proto.Marshal(m)
	if err != nil {
		// gRPC finishes the client stream on an encoding error
		c.failed = status.Errorf(codes.Internal, "grpc: error while marshaling: %v", err)
		c.emit("car", tr.E{"what": "marshalfail", "dir": c.up.name})
		c.srvCancel()
		c.cond.Broadcast()
		return "", 0, c.failed
	}
	pt, sid := c.enqueue(c.up, b, m, desc)
	return pt, sid, nil
}

func (c *Carrier) enqueue(p *pipe, b []byte, m proto.Message, desc func(proto.Message) tr.E) (string, int64) {
	p.q = append(p.q, b)
	p.sent++
	e := desc(m)
	e["dir"] = p.name
	e["n"] = p.sent
	cp := tr.E{}
	for k, v := range e {
		cp[k] = v
	}
	p.descs = append(p.descs, cp)
	c.emit("wire.send", e)
	c.cond.Broadcast()
	kind, _ := cp["kind"].(string)
	sid, _ := cp["sid"].(int64)
	return "car.sent." + p.name + "." + kind, sid
}

func (c *Carrier) cliRecv(into proto.Message) error {
	c.mu.Lock()
	defer c.mu.Unlock()
	c.emit("wire.idle", tr.E{"dir": c.down.name, "n": c.down.taken})
	for {
		if err := c.cliCtx.Err(); err != nil {
			c.cliEnd()
			return ctxStatus(err)
		}
		if c.failed != nil {
			c.cliEnd()
			return c.failed
		}
		if c.cliSawEnd {
			return io.EOF
		}
		if c.down.ready(c.o.Auto) {
			return c.take(c.down, into)
		}
		if len(c.down.q) == 0 && c.handlerEnd {
			c.cliEnd()
			err := c.handlerStatus()
			return err
		}
		c.cond.Wait()
	}
}

func (c *Carrier) cliEnd() {
	if !c.cliSawEnd {
		c.cliSawEnd = true
		c.strCancel()
	}
}

func (c *Carrier) take(p *pipe, into proto.Message) error {
	b := p.q[0]
	p.q = p.q[1:]
	p.taken++
	if p.released < p.taken {
		p.released = p.taken
	}
	c.emit("wire.recv", recvEvent(p, false))
	c.cond.Broadcast()
	return proto.Unmarshal(b, into)
}

// recvEvent describes the frame just taken off pipe p (same fields as its
// wire.send event, so that a trace can be validated without looking back).
func recvEvent(p *pipe, raw bool) tr.E {
	e := p.descs[0]
	p.descs = p.descs[1:]
	e["n"] = p.taken
	e["raw"] = raw
	delete(e, "t")
	return e
}

func (c *Carrier) cliCloseSend() error {
	c.mu.Lock()
	defer c.mu.Unlock()
	if c.cliSending > 0 {
		c.emit("car", tr.E{"what": "contract", "detail": "closesend-during-send"})
	}
	if !c.up.closed {
		c.up.closed = true
		c.emit("car", tr.E{"what": "closeSend"})
		c.cond.Broadcast()
	}
	return nil
}

func (c *Carrier) cliHeader() (metadata.MD, error) {
	c.mu.Lock()
	defer c.mu.Unlock()
	for {
		if c.hdrReady {
			return c.hdr.Copy(), nil
		}
		if err := c.cliCtx.Err(); err != nil {
			return nil, ctxStatus(err)
		}
		if c.failed != nil {
			return nil, c.failed
		}
		c.cond.Wait()
	}
}

// ---- network server end ----------------------------------------------------

func (c *Carrier) srvSend(m proto.Message, desc func(proto.Message) tr.E) error {
	point, sid, err := c.srvSendLocked(m, desc)
	if err == nil && point != "" && c.o.Yield != nil {
		c.o.Yield(point, sid)
	}
	return err
}

func (c *Carrier) srvSendLocked(m proto.Message, desc func(proto.Message) tr.E) (string, int64, error) {
	c.mu.Lock()
	defer c.mu.Unlock()
	if c.sendFails("srv", m, desc) {
		return "", 0, io.EOF
	}
	for {
		if c.failed != nil {
			return "", 0, c.failed
		}
		if err := c.srvCtx.Err(); err != nil {
			return "", 0, ctxStatus(err)
		}
		if c.o.Cap == 0 || len(c.down.q) < c.o.Cap {
			break
		}
		c.cond.Wait()
	}
	b, err := proto.Marshal(m)
	if err != nil {
		c.failed = status.Errorf(codes.Internal, "grpc: error while marshaling: %v", err)
		c.emit("car", tr.E{"what": "marshalfail", "dir": c.down.name})
		c.srvCancel()
		c.cond.Broadcast()
		return "", 0, c.failed
	}
	if !c.hdrReady {
		c.hdrReady = true
	}
	pt, sid := c.enqueue(c.down, b, m, desc)
	return pt, sid, nil
}

func (c *Carrier) srvRecv(into proto.Message) error {
	c.mu.Lock()
	defer c.mu.Unlock()
	c.emit("wire.idle", tr.E{"dir": c.up.name, "n": c.up.taken})
	for {
		if c.failed != nil {
			return c.failed
		}
		if err := c.srvCtx.Err(); err != nil {
			return ctxStatus(err)
		}
		if c.up.ready(c.o.Auto) {
			return c.take(c.up, into)
		}
		if len(c.up.q) == 0 && c.up.closed {
			return io.EOF
		}
		c.cond.Wait()
	}
}

func (c *Carrier) srvSendHeader(md metadata.MD) error {
	c.mu.Lock()
	defer c.mu.Unlock()
	if c.hdrReady {
		return status.Error(codes.Internal, "transport: the stream is done or WriteHeader was already called")
	}
	c.hdr = metadata.Join(c.hdr, md)
	c.hdrReady = true
	c.cond.Broadcast()
	return nil
}

func (c *Carrier) srvSetHeader(md metadata.MD) error {
	c.mu.Lock()
	defer c.mu.Unlock()
	if c.hdrReady {
		return status.Error(codes.Internal, "transport: the stream is done or WriteHeader was already called")
	}
	c.hdr = metadata.Join(c.hdr, md)
	return nil
}

// Finished is called when the carrier is no longer needed.
func (c *Carrier) Finished() {
	c.stopAfter()
	c.strCancel()
	c.srvCancel()
}

// ---- typed stream ends ------------------------------------------------------

// ClientEnd is the network client's view of the carrier. S is the message type
// it sends, R the one it receives.
type ClientEnd[S, R any, PS interface {
	*S
	proto.Message
}, PR interface {
	*R
	proto.Message
}] struct {
	C    *Carrier
	Desc func(proto.Message) tr.E
}

func (e *ClientEnd[S, R, PS, PR]) Send(m *S) error { return e.C.cliSend(PS(m), e.Desc) }
func (e *ClientEnd[S, R, PS, PR]) Recv() (*R, error) {
	m := new(R)
	if err := e.C.cliRecv(PR(m)); err != nil {
		return nil, err
	}
	return m, nil
}
func (e *ClientEnd[S, R, PS, PR]) Header() (metadata.MD, error) { return e.C.cliHeader() }
func (e *ClientEnd[S, R, PS, PR]) Trailer() metadata.MD         { return nil }
func (e *ClientEnd[S, R, PS, PR]) CloseSend() error             { return e.C.cliCloseSend() }
func (e *ClientEnd[S, R, PS, PR]) Context() context.Context     { return e.C.strCtx }
func (e *ClientEnd[S, R, PS, PR]) SendMsg(m any) error {
	return e.C.cliSend(m.(proto.Message), e.Desc)
}
func (e *ClientEnd[S, R, PS, PR]) RecvMsg(m any) error { return e.C.cliRecv(m.(proto.Message)) }

// ServerEnd is the network server's view of the carrier. R is the message type
// it receives, S the one it sends.
type ServerEnd[R, S any, PR interface {
	*R
	proto.Message
}, PS interface {
	*S
	proto.Message
}] struct {
	C    *Carrier
	Desc func(proto.Message) tr.E
}

func (e *ServerEnd[R, S, PR, PS]) Send(m *S) error { return e.C.srvSend(PS(m), e.Desc) }
func (e *ServerEnd[R, S, PR, PS]) Recv() (*R, error) {
	m := new(R)
	if err := e.C.srvRecv(PR(m)); err != nil {
		return nil, err
	}
	return m, nil
}
func (e *ServerEnd[R, S, PR, PS]) SetHeader(md metadata.MD) error  { return e.C.srvSetHeader(md) }
func (e *ServerEnd[R, S, PR, PS]) SendHeader(md metadata.MD) error { return e.C.srvSendHeader(md) }
func (e *ServerEnd[R, S, PR, PS]) SetTrailer(metadata.MD)          {}
func (e *ServerEnd[R, S, PR, PS]) Context() context.Context        { return e.C.srvCtx }
func (e *ServerEnd[R, S, PR, PS]) SendMsg(m any) error {
	return e.C.srvSend(m.(proto.Message), e.Desc)
}
func (e *ServerEnd[R, S, PR, PS]) RecvMsg(m any) error { return e.C.srvRecv(m.(proto.Message)) }
