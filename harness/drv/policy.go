package drv

import (
	"math/rand"
)

// RPCScript holds the scripted application behaviour of one RPC: per end
// ("c" caller, "s" handler) and actor ("m" main, "a" auxiliary) a list of ops.
type RPCScript struct {
	Rpc int               `json:"rpc"`
	C   map[string][]Step `json:"c,omitempty"`
	S   map[string][]Step `json:"s,omitempty"`
}

// Fault is a driver step injected after At policy steps.
type Fault struct {
	At   int  `json:"at"`
	Step Step `json:"step"`
}

// Policy decides online which enabled driver action is taken next.
//
//	eager  - deliver pending frames first, then application ops in script order
//	lazy   - application ops first, frames only when no op can start
//	random - uniformly among everything enabled (seeded)
type Policy struct {
	Kind   string  `json:"kind"`
	Seed   int64   `json:"seed,omitempty"`
	Max    int     `json:"max,omitempty"`
	Faults []Fault `json:"faults,omitempty"`
	// AllK: run the scenario once for every position k of Faults[0] (0..T where
	// T is the number of steps of the fault-free run), at most MaxK variants.
	AllK bool `json:"allK,omitempty"`
	MaxK int  `json:"maxK,omitempty"`
	// NoDrain: do not finish by delivering every frame in flight.
	NoDrain bool `json:"noDrain,omitempty"`
}

type scriptKey struct {
	rpc      int
	end, act string
}

type cand struct {
	st  Step
	key *scriptKey
}

func (s *Session) candidates(sc *Scenario, pos map[scriptKey]int) (ops, dels []cand) {
	for _, rs := range sc.RPCs {
		r := s.getRPC(rs.Rpc)
		for _, end := range []string{"c", "s"} {
			scripts := rs.C
			if end == "s" {
				scripts = rs.S
			}
			for _, act := range []string{"m", "a"} {
				list := scripts[act]
				k := scriptKey{rs.Rpc, end, act}
				p := pos[k]
				if p >= len(list) {
					continue
				}
				s.mu.Lock()
				var a *actor
				live := true
				if end == "c" {
					a = r.cact[act]
					main := r.cact["m"]
					first := list[p].Op == "new" || list[p].Op == "invoke"
					if !first {
						// needs the stream created by the main actor's first op
						live = r.cs != nil
						if !live && main != nil && main.current() == nil && pos[scriptKey{rs.Rpc, "c", "m"}] > 0 {
							// the RPC failed to start: abandon the script
							pos[k] = len(list)
						}
					}
				} else {
					a = r.hact[act]
					live = r.hlive
					if !live && r.hret != nil {
						pos[k] = len(list) // handler returned: abandon
					}
				}
				s.mu.Unlock()
				if !live {
					continue
				}
				if a != nil && a.current() != nil {
					continue
				}
				st := list[p]
				if st.Op == "ret" {
					// the handler returns only after its auxiliary actor is done
					ak := scriptKey{rs.Rpc, end, "a"}
					s.mu.Lock()
					aux := r.hact["a"]
					s.mu.Unlock()
					if pos[ak] < len(scripts["a"]) || (aux != nil && aux.current() != nil) {
						continue
					}
				}
				st.Do, st.End, st.Rpc, st.Act = "op", end, rs.Rpc, act
				kk := k
				ops = append(ops, cand{st, &kk})
			}
		}
	}
	if c := s.carrier(); c != nil {
		for _, dir := range []string{"c2s", "s2c"} {
			q, rel := c.Pending(dir)
			if q > rel {
				dels = append(dels, cand{Step{Do: "deliver", Dir: dir}, nil})
			}
		}
	}
	return
}

// runPolicy executes the scripts under the policy; it returns the number of
// policy steps executed. stepNo numbers the steps in the log.
func (s *Session) runPolicy(sc *Scenario, stepNo *int) int {
	p := sc.Policy
	rng := rand.New(rand.NewSource(p.Seed))
	max := p.Max
	if max <= 0 {
		max = 2000
	}
	pos := map[scriptKey]int{}
	fired := map[int]bool{}
	n := 0
	fire := func(at int, final bool) {
		for i, f := range p.Faults {
			if !fired[i] && (f.At == at || (final && f.At >= at)) {
				fired[i] = true
				s.step(*stepNo, f.Step)
				*stepNo++
				if len(sc.Late) > 0 {
					sc.RPCs = append(append([]RPCScript(nil), sc.RPCs...), sc.Late...)
					sc.Late = nil
				}
			}
		}
	}
	for ; n < max; n++ {
		fire(n, false)
		ops, dels := s.candidates(sc, pos)
		var all []cand
		switch p.Kind {
		case "eager":
			all = append(dels, ops...)
		case "lazy":
			all = append(ops, dels...)
		default:
			all = append(ops, dels...)
		}
		if len(all) == 0 {
			break
		}
		pick := all[0]
		if p.Kind == "random" || p.Kind == "" {
			pick = all[rng.Intn(len(all))]
		}
		if pick.key != nil {
			pos[*pick.key]++
		}
		s.step(*stepNo, pick.st)
		*stepNo++
	}
	fire(n, true)
	// after a late fault, let the remaining enabled actions run (ops must fail
	// fast, frames must be inert)
	for extra := 0; extra < max; extra++ {
		ops, dels := s.candidates(sc, pos)
		all := append(ops, dels...)
		if len(all) == 0 {
			break
		}
		pick := all[0]
		if pick.key != nil {
			pos[*pick.key]++
		}
		s.step(*stepNo, pick.st)
		*stepNo++
	}
	return n
}
