package drv

import (
	"math/rand"
	"sync"
	"testing/synctest"

	"verif/harness/tr"
)

// RPCScript holds the scripted application behaviour of one RPC: per end
// ("c" caller, "s" handler) and actor ("m" main, "a" auxiliary) a list of ops.
type RPCScript struct {
	Rpc int               `json:"rpc"`
	C   map[string][]Step `json:"c,omitempty"`
	S   map[string][]Step `json:"s,omitempty"`
}

// Fault is a driver step injected after At policy steps.
type Fault struct {
	At   int  `json:"at"`
	Step Step `json:"step"`
}

// Policy decides online which enabled driver action is taken next.
//
//	eager  - deliver pending frames first, then application ops in script order
//	lazy   - application ops first, frames only when no op can start
//	random - uniformly among everything enabled (seeded)
type Policy struct {
	Kind   string  `json:"kind"`
	Seed   int64   `json:"seed,omitempty"`
	Max    int     `json:"max,omitempty"`
	Faults []Fault `json:"faults,omitempty"`
	// AllK: run the scenario once for every position k of Faults[0] (0..T where
	// T is the number of steps of the fault-free run), at most MaxK variants.
	AllK bool `json:"allK,omitempty"`
	MaxK int  `json:"maxK,omitempty"`
	// NoDrain: do not finish by delivering every frame in flight.
	NoDrain bool `json:"noDrain,omitempty"`
}

type scriptKey struct {
	rpc      int
	end, act string
}

type cand struct {
	st  Step
	key *scriptKey
}

func (s *Session) candidates(sc *Scenario, pos map[scriptKey]int) (ops, dels []cand) {
	for _, rs := range sc.RPCs {
		r := s.getRPC(rs.Rpc)
		for _, end := range []string{"c", "s"} {
			scripts := rs.C
			if end == "s" {
				scripts = rs.S
			}
			for _, act := range []string{"m", "a"} {
				list := scripts[act]
				k := scriptKey{rs.Rpc, end, act}
				p := pos[k]
				if p >= len(list) {
					continue
				}
				s.mu.Lock()
				var a *actor
				live := true
				if end == "c" {
					a = r.cact[act]
					main := r.cact["m"]
					first := list[p].Op == "new" || list[p].Op == "invoke"
					if !first {
						// needs the stream created by the main actor's first op
						live = r.cs != nil
						if !live && main != nil && main.current() == nil && pos[scriptKey{rs.Rpc, "c", "m"}] > 0 {
							// the RPC failed to start: abandon the script
							pos[k] = len(list)
						}
					}
				} else {
					a = r.hact[act]
					live = r.hlive
					if !live && r.hret != nil {
						pos[k] = len(list) // handler returned: abandon
					}
				}
				s.mu.Unlock()
				if !live {
					continue
				}
				if a != nil && a.current() != nil {
					continue
				}
				st := list[p]
				if (st.Op == "send" || st.Op == "half") && s.sendFailed(rs.Rpc, end) {
					// a legal application does not go on sending after a send failed
					pos[k] = p + 1
					continue
				}
				if st.Op == "ret" {
					// the handler returns only after its auxiliary actor is done
					ak := scriptKey{rs.Rpc, end, "a"}
					s.mu.Lock()
					aux := r.hact["a"]
					s.mu.Unlock()
					if pos[ak] < len(scripts["a"]) || (aux != nil && aux.current() != nil) {
						continue
					}
				}
				st.Do, st.End, st.Rpc, st.Act = "op", end, rs.Rpc, act
				kk := k
				ops = append(ops, cand{st, &kk})
			}
		}
	}
	if c := s.carrier(); c != nil {
		for _, dir := range []string{"c2s", "s2c"} {
			q, rel := c.Pending(dir)
			if q > rel {
				dels = append(dels, cand{Step{Do: "deliver", Dir: dir}, nil})
			}
		}
	}
	return
}

// order arranges the candidates by the policy's priorities.
func order(kind string, ops, dels []cand) []cand {
	var cops, sops []cand
	for _, c := range ops {
		if c.st.End == "c" {
			cops = append(cops, c)
		} else {
			sops = append(sops, c)
		}
	}
	cat := func(ls ...[]cand) []cand {
		var out []cand
		for _, l := range ls {
			out = append(out, l...)
		}
		return out
	}
	switch kind {
	case "eager":
		return cat(dels, ops)
	case "slowsrv": // the handler side runs only when nothing else can: requests pile up at the server
		return cat(cops, dels, sops)
	case "slowcli": // the caller side runs only when nothing else can: responses pile up at the client
		return cat(sops, dels, cops)
	default: // lazy, random
		return cat(ops, dels)
	}
}

// runPolicy executes the scripts under the policy; it returns the number of
// policy steps executed. stepNo numbers the steps in the log.
func (s *Session) runPolicy(sc *Scenario, stepNo *int) int {
	p := sc.Policy
	rng := rand.New(rand.NewSource(p.Seed))
	max := p.Max
	if max <= 0 {
		max = 2000
	}
	pos := map[scriptKey]int{}
	fired := map[int]bool{}
	n := 0
	fire := func(at int, final bool) {
		for i, f := range p.Faults {
			// At < 0: right after the preceding fault of the list
			if !fired[i] && (f.At == at || (final && f.At >= at) || (f.At < 0 && i > 0 && fired[i-1])) {
				fired[i] = true
				s.step(*stepNo, f.Step)
				*stepNo++
				if len(sc.Late) > 0 {
					sc.RPCs = append(append([]RPCScript(nil), sc.RPCs...), sc.Late...)
					sc.Late = nil
				}
			}
		}
	}
	parkFired := false
	for ; n < max; n++ {
		fire(n, false)
		// At == -2: as soon as a goroutine is held at a gate
		if !parkFired && len(s.parkedList()) > 0 {
			for i, f := range p.Faults {
				if !fired[i] && f.At == -2 {
					parkFired = true
					fired[i] = true
					s.step(*stepNo, f.Step)
					*stepNo++
					if len(sc.Late) > 0 {
						sc.RPCs = append(append([]RPCScript(nil), sc.RPCs...), sc.Late...)
						sc.Late = nil
					}
				}
			}
		}
		ops, dels := s.candidates(sc, pos)
		var all []cand
		all = order(p.Kind, ops, dels)
		if len(all) == 0 {
			// nothing can move: let a goroutine held at a gate continue
			if pk := s.parkedList(); len(pk) > 0 {
				s.step(*stepNo, Step{Do: "release", Point: pk[0][0].(string), Sid: pk[0][1].(int64)})
				*stepNo++
				continue
			}
			break
		}
		pick := all[0]
		if p.Kind == "random" || p.Kind == "" {
			pick = all[rng.Intn(len(all))]
		}
		if pick.key != nil {
			pos[*pick.key]++
		}
		s.step(*stepNo, pick.st)
		*stepNo++
	}
	fire(n, true)
	// after a late fault, let the remaining enabled actions run (ops must fail
	// fast, frames must be inert)
	for extra := 0; extra < max; extra++ {
		ops, dels := s.candidates(sc, pos)
		all := append(ops, dels...)
		if len(all) == 0 {
			if pk := s.parkedList(); len(pk) > 0 {
				s.step(*stepNo, Step{Do: "release", Point: pk[0][0].(string), Sid: pk[0][1].(int64)})
				*stepNo++
				continue
			}
			break
		}
		pick := all[0]
		if pick.key != nil {
			pos[*pick.key]++
		}
		s.step(*stepNo, pick.st)
		*stepNo++
	}
	return n
}

// runFree executes the scripts free-running: every application actor runs its
// ops on its own goroutine with real parallelism, frames are delivered at once,
// library goroutines are randomly delayed at the yield points, faults fire when
// the event log reaches a given length. Only the final quiescent point is
// reported.
func (s *Session) runFree(sc *Scenario, stepNo *int) {
	p := sc.Policy
	s.rngMu.Lock()
	s.rng = rand.New(rand.NewSource(p.Seed))
	s.rngMu.Unlock()
	s.mu.Lock()
	s.scripts = map[int]RPCScript{}
	for _, rs := range sc.RPCs {
		s.scripts[rs.Rpc] = rs
	}
	s.mu.Unlock()
	// faults by event count
	var fmu sync.Mutex
	fired := map[int]bool{}
	s.Log.SetTap(func(e tr.E) {
		n, _ := e["i"].(int)
		for i, f := range p.Faults {
			fmu.Lock()
			ok := !fired[i] && f.At >= 0 && n >= f.At
			if ok {
				fired[i] = true
			}
			fmu.Unlock()
			if ok {
				st := f.Step
				go func() { s.exec(st) }()
			}
		}
	})
	for _, rs := range sc.RPCs {
		r := s.getRPC(rs.Rpc)
		ready := make(chan struct{})
		for _, act := range []string{"m", "a"} {
			list := rs.C[act]
			if len(list) == 0 {
				if act == "m" {
					close(ready)
				}
				continue
			}
			a := &actor{end: "c", rpc: rs.Rpc, name: act, cmds: make(chan Step)}
			s.mu.Lock()
			r.cact[act] = a
			s.mu.Unlock()
			go func(act string, list []Step) {
				if act == "a" {
					select {
					case <-ready:
					case <-s.quit:
						return
					}
				}
				for i, st := range list {
					st.Do, st.End, st.Rpc, st.Act = "op", "c", rs.Rpc, act
					first := st.Op == "new" || st.Op == "invoke"
					if !first && r.cs == nil {
						break
					}
					if (st.Op == "send" || st.Op == "half") && s.sendFailed(rs.Rpc, "c") {
						continue
					}
					stc := st
					a.setCur(&stc)
					s.clientOp(r, a, st)
					a.setCur(nil)
					if act == "m" && i == 0 {
						close(ready)
					}
				}
			}(act, list)
		}
	}
	synctest.Wait()
	s.Log.SetTap(nil)
	*stepNo++
}
