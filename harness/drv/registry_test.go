package drv

import (
	"bufio"
	"context"
	"encoding/json"
	"fmt"
	"os"
	"sort"
	"sync"
	"sync/atomic"
	"testing"
	"testing/synctest"

	"google.golang.org/grpc"
	"google.golang.org/grpc/metadata"
	"google.golang.org/protobuf/types/known/wrapperspb"

	"github.com/jhump/grpctunnel"
	"github.com/jhump/grpctunnel/tunnelpb"

	"verif/harness/sim"
	"verif/harness/tr"
	"verif/harness/wire"
)

// TestRegistry runs registry scenarios ($VERIF_SCENARIOS, ndjson): several
// reverse tunnels (each served by its own ReverseTunnelServer, with an affinity
// key taken from the opening metadata) are opened, ended from either end or
// broken, interleaved with RPCs routed through the handler's pooled channels,
// Ready / WaitForReady and enumeration calls. The carriers deliver frames at
// once; the steps of opening / unregistering a tunnel can be held at the
// registry's yield points. Events go to $VERIF_TRACES for spec/RegistryMon.tla.

type regStep struct {
	Do    string `json:"do"`
	T     int    `json:"t,omitempty"`
	Key   string `json:"key,omitempty"` // affinity key; "" = nil key
	Via   string `json:"via,omitempty"` // "all" or "key:<k>" (key:"" = nil key)
	Op    int    `json:"op,omitempty"`  // id of a blocking op (waitready)
	Point string `json:"point,omitempty"`
	As    int    `json:"as,omitempty"`   // reserve: number under which the further Serve call's tunnel is known
	NoFC  bool   `json:"nofc,omitempty"` // serve: this reverse-tunnel server disables flow control (a revision-zero tunnel)
}

type regScenario struct {
	Name  string   `json:"name"`
	Gates []string `json:"gates,omitempty"`
	// Rendezvous: tunnels being admitted are held right before they look up (or create) the registry
	// of their key until this many have arrived, and then go on together (tunnels registering at the
	// same moment, e.g. with a key that is used for the first time)
	Rendezvous int            `json:"rendezvous,omitempty"`
	Steps      []regStep      `json:"steps"`
	Meta       map[string]any `json:"meta,omitempty"`
}

type regTunnel struct {
	t      int
	key    string
	rts    *grpctunnel.ReverseTunnelServer
	car    *sim.Carrier
	cancel context.CancelFunc
	ch     grpctunnel.TunnelChannel
}

type regSession struct {
	log        *tr.Log
	mu         sync.Mutex
	h          *grpctunnel.TunnelServiceHandler
	tun        map[int]*regTunnel
	byChan     map[int64]int
	gates      map[string]bool
	rv         chan struct{}
	rvN        int
	locMu      sync.Mutex
	loc        grpctunnel.TunnelChannel
	rendezvous int
	rvSpin     atomic.Int64
	parked     map[string]chan struct{}
	pending    map[int]context.CancelFunc
	quit       chan struct{}
	hlive      map[int]bool
}

type regStub struct {
	s *regSession
	t *regTunnel
}

func (st regStub) OpenTunnel(ctx context.Context, opts ...grpc.CallOption) (grpc.BidiStreamingClient[tunnelpb.ClientToServer, tunnelpb.ServerToClient], error) {
	return nil, fmt.Errorf("not used")
}

func (st regStub) OpenReverseTunnel(ctx context.Context, opts ...grpc.CallOption) (grpc.BidiStreamingClient[tunnelpb.ServerToClient, tunnelpb.ClientToServer], error) {
	s, t := st.s, st.t
	// a further Serve call on the same server opens a tunnel of its own (known under its own number,
	// carried in the opening metadata): it must not take over the first tunnel's carrier and bookkeeping
	if md, ok := metadata.FromOutgoingContext(ctx); ok {
		if v := md.Get("x-tun"); len(v) > 0 {
			var n int
			fmt.Sscanf(v[0], "%d", &n)
			s.mu.Lock()
			if o := s.tun[n]; o != nil {
				t = o
			}
			s.mu.Unlock()
		}
	}
	car := sim.New(ctx, sim.Options{T: t.t, Reverse: true, Auto: true})
	s.mu.Lock()
	t.car = car
	s.hlive[t.t] = true
	s.mu.Unlock()
	se := &sim.ServerEnd[tunnelpb.ServerToClient, tunnelpb.ClientToServer, *tunnelpb.ServerToClient, *tunnelpb.ClientToServer]{C: car, Desc: wire.Desc}
	go func() {
		err := s.h.Service().OpenReverseTunnel(se)
		car.HandlerReturned(err)
		s.mu.Lock()
		s.hlive[t.t] = false
		s.mu.Unlock()
		s.log.Emit("reg", errFields(tr.E{"what": "handler.ret", "t": t.t}, err))
	}()
	return &sim.ClientEnd[tunnelpb.ServerToClient, tunnelpb.ClientToServer, *tunnelpb.ServerToClient, *tunnelpb.ClientToServer]{C: car, Desc: wire.Desc}, nil
}

var regDesc = grpc.ServiceDesc{
	ServiceName: "verif.Reg",
	HandlerType: (*svcIface)(nil),
	Methods: []grpc.MethodDesc{{
		MethodName: "Who",
		Handler: func(srv any, ctx context.Context, dec func(any) error, _ grpc.UnaryServerInterceptor) (any, error) {
			t := srv.(*regTunnel)
			_ = dec(new(wrapperspb.BytesValue))
			return &wrapperspb.BytesValue{Value: []byte(fmt.Sprint(t.t))}, nil
		},
	}},
}

func keyOf(s string) any {
	if s == "" {
		return nil
	}
	return s
}

func (s *regSession) tunOfChan(ch grpctunnel.TunnelChannel) int {
	md, _ := metadata.FromIncomingContext(ch.Context())
	n := 0
	if v := md.Get("x-tun"); len(v) > 0 {
		fmt.Sscanf(v[0], "%d", &n)
	}
	return n
}

func (s *regSession) yield(point string, id int64) {
	s.mu.Lock()
	t := s.byChan[id]
	s.mu.Unlock()
	key := fmt.Sprintf("%s@%d", point, t)
	if s.gates[point] || s.gates[key] {
		logIt := func() {
			if len(point) > 4 && (point[:4] == "reg." || point[:4] == "rts.") {
				s.log.Emit("hook", tr.E{"point": point, "t": t, "sid": id, "a": 0, "b": 0})
			}
		}
		select {
		case <-s.quit:
			// tearing down: nobody is held any more, but the point is still part of the history
			logIt()
			return
		default:
		}
		ch := make(chan struct{})
		s.mu.Lock()
		if _, dup := s.parked[key]; dup {
			s.mu.Unlock()
			logIt()
			return
		}
		s.parked[key] = ch
		s.mu.Unlock()
		s.log.Emit("park", tr.E{"point": point, "t": t})
		select {
		case <-ch:
		case <-s.quit:
		}
		s.log.Emit("unpark", tr.E{"point": point, "t": t})
		return
	}
	if len(point) > 4 && (point[:4] == "reg." || point[:4] == "rts.") {
		s.log.Emit("hook", tr.E{"point": point, "t": t, "sid": id, "a": 0, "b": 0})
	}
	if s.rendezvous > 1 && point == "reg.add.global" {
		// hold tunnels right before they look up (or create) their per-key registry until enough
		// have arrived, then let them go on together
		s.mu.Lock()
		s.rvN++
		if s.rvN%s.rendezvous == 0 {
			close(s.rv)
			s.rv = make(chan struct{})
			s.mu.Unlock()
		} else {
			w := s.rv
			pk := fmt.Sprintf("rendezvous@%d", t)
			s.parked[pk] = make(chan struct{}) // visible in the quiescence snapshot: this tunnel is mid-admission
			s.mu.Unlock()
			s.log.Emit("park", tr.E{"point": "rendezvous", "t": t})
			select {
			case <-w:
			case <-s.quit:
			}
			s.mu.Lock()
			delete(s.parked, pk)
			s.mu.Unlock()
			s.log.Emit("unpark", tr.E{"point": "rendezvous", "t": t})
		}
		// the goroutines of one group leave together: the one that was woken has to be scheduled first,
		// so everybody spins (briefly, bounded) until the whole group is running
		n := s.rvSpin.Add(1)
		target := ((n-1)/int64(s.rendezvous) + 1) * int64(s.rendezvous)
		for i := 0; s.rvSpin.Load() < target && i < 20000000; i++ {
		}
	}
}

func (s *regSession) via(v string) grpctunnel.ReverseClientConnInterface {
	if v == "all" || v == "" {
		return s.h.AsChannel()
	}
	return s.h.KeyAsChannel(keyOf(v[len("key:"):]))
}

func (s *regSession) quiesce(final bool) {
	var open []int
	for _, ch := range s.h.AllReverseTunnels() {
		open = append(open, s.tunOfChan(ch))
	}
	sort.Ints(open)
	if open == nil {
		open = []int{}
	}
	s.mu.Lock()
	pk := []string{}
	for k := range s.parked {
		pk = append(pk, k)
	}
	sort.Strings(pk)
	pend := []int{}
	for k := range s.pending {
		pend = append(pend, k)
	}
	sort.Ints(pend)
	hl := []int{}
	for t, l := range s.hlive {
		if l {
			hl = append(hl, t)
		}
	}
	sort.Ints(hl)
	s.mu.Unlock()
	// readiness of every pooled channel the scenario may use
	ready := map[string]bool{"all": s.h.AsChannel().Ready()}
	for _, k := range []string{"", "k1", "k2"} {
		ready["key:"+k] = s.h.KeyAsChannel(keyOf(k)).Ready()
	}
	me := myBubble()
	lib := 0
	for _, g := range Snapshot() {
		if g.Bubble == me && g.LibRooted() {
			lib++
		}
	}
	s.log.Emit("rq", tr.E{"enum": open, "ready": ready, "parked": pk, "pending": pend, "hlive": hl, "final": final, "g": lib})
}

func runRegistry(scn regScenario) *tr.Log {
	grpctunnel.VerifForget()
	s := &regSession{log: tr.New(), tun: map[int]*regTunnel{}, byChan: map[int64]int{}, gates: map[string]bool{},
		parked: map[string]chan struct{}{}, pending: map[int]context.CancelFunc{}, quit: make(chan struct{}), hlive: map[int]bool{},
		rv: make(chan struct{}), rendezvous: scn.Rendezvous}
	for _, g := range scn.Gates {
		s.gates[g] = true
	}
	grpctunnel.VerifYieldHook = s.yield
	grpctunnel.VerifEventHook = func(point string, id, a, b int64) {
		if point == "reg.pick" || (len(point) > 4 && point[:4] == "rts.") {
			s.mu.Lock()
			t := s.byChan[id]
			s.mu.Unlock()
			s.log.Emit("hook", tr.E{"point": point, "t": t, "sid": id, "a": a, "b": b})
		}
	}
	defer func() { grpctunnel.VerifYieldHook, grpctunnel.VerifEventHook = nil, nil }()
	s.h = grpctunnel.NewTunnelServiceHandler(grpctunnel.TunnelServiceHandlerOptions{
		AffinityKey: func(ch grpctunnel.TunnelChannel) any {
			// the channel becomes known (with its tunnel number) as soon as the handler asks for its key
			t := s.tunOfChan(ch)
			s.mu.Lock()
			s.byChan[grpctunnel.VerifChannelID(ch)] = t
			if rt := s.tun[t]; rt != nil {
				rt.ch = ch
			}
			s.mu.Unlock()
			md, _ := metadata.FromIncomingContext(ch.Context())
			if v := md.Get("x-key"); len(v) > 0 {
				return v[0]
			}
			return nil
		},
		OnReverseTunnelOpen: func(ch grpctunnel.TunnelChannel) {
			_, _, rev := grpctunnel.VerifChannelState(ch)
			select {
			case <-ch.Done():
				rev = -1 // the channel ended before (or while) the settings arrived: nothing was negotiated
			default:
			}
			s.log.Emit("reg", tr.E{"what": "cb.open", "t": s.tunOfChan(ch), "rev": int(rev)})
		},
		OnReverseTunnelClose: func(ch grpctunnel.TunnelChannel) {
			s.log.Emit("reg", tr.E{"what": "cb.close", "t": s.tunOfChan(ch)})
			// a (slow) close callback is a yield point too: the handler's own clean-up runs after it
			s.yield("cb.close", grpctunnel.VerifChannelID(ch))
		},
	})
	meta := map[string]any{"_": 0}
	for k, v := range scn.Meta {
		meta[k] = v
	}
	s.log.Emit("scenario", tr.E{"name": scn.Name, "meta": meta})
	for k, st := range scn.Steps {
		s.log.Emit("step", tr.E{"k": k, "do": st.Do, "t": st.T, "via": st.Via, "key": st.Key})
		switch st.Do {
		case "serve":
			t := &regTunnel{t: st.T, key: st.Key}
			s.mu.Lock()
			if st.NoFC {
				t.rts = grpctunnel.NewReverseTunnelServer(regStub{s, t}, grpctunnel.WithDisableFlowControl())
			} else {
				t.rts = grpctunnel.NewReverseTunnelServer(regStub{s, t})
			}
			t.rts.RegisterService(&regDesc, t)
			s.tun[st.T] = t
			s.mu.Unlock()
			md := metadata.Pairs("x-tun", fmt.Sprint(st.T))
			if st.Key != "" {
				md.Set("x-key", st.Key)
			}
			ctx, cancel := context.WithCancel(metadata.NewOutgoingContext(context.Background(), md))
			t.cancel = cancel
			s.log.Emit("reg", tr.E{"what": "serve.start", "t": st.T, "key": st.Key, "nofc": st.NoFC})
			go func() {
				started, err := t.rts.Serve(ctx)
				s.log.Emit("reg", errFields(tr.E{"what": "serve.ret", "t": st.T, "started": started}, err))
			}()
		case "reserve":
			// Serve again on the SAME ReverseTunnelServer (after Stop / GracefulStop); the
			// tunnel this call may open is known under its own number st.As
			s.mu.Lock()
			t := s.tun[st.T]
			s.mu.Unlock()
			if t == nil {
				break
			}
			t2 := &regTunnel{t: st.As, key: t.key, rts: t.rts}
			s.mu.Lock()
			s.tun[st.As] = t2
			s.mu.Unlock()
			md := metadata.Pairs("x-tun", fmt.Sprint(st.As))
			ctx, cancel := context.WithCancel(metadata.NewOutgoingContext(context.Background(), md))
			t2.cancel = cancel
			s.log.Emit("reg", tr.E{"what": "serve.start", "t": st.As, "key": t.key, "again": true, "of": st.T})
			go func() {
				started, err := t.rts.Serve(ctx)
				s.log.Emit("reg", errFields(tr.E{"what": "serve.ret", "t": st.As, "started": started, "again": true, "of": st.T}, err))
			}()
		case "stop", "gstop":
			s.mu.Lock()
			t := s.tun[st.T]
			s.mu.Unlock()
			if t == nil {
				break
			}
			s.log.Emit("reg", tr.E{"what": st.Do, "t": st.T})
			go func() {
				if st.Do == "stop" {
					t.rts.Stop()
				} else {
					t.rts.GracefulStop()
				}
				s.log.Emit("reg", tr.E{"what": st.Do + ".ret", "t": st.T})
			}()
		case "close":
			// Close() of the channel on the handler's side
			s.mu.Lock()
			t := s.tun[st.T]
			s.mu.Unlock()
			if t == nil || t.ch == nil {
				s.log.Emit("skip", tr.E{"why": "no channel"})
				break
			}
			s.log.Emit("reg", tr.E{"what": "close", "t": st.T})
			ch := t.ch
			go ch.Close()
		case "fail":
			s.mu.Lock()
			t := s.tun[st.T]
			s.mu.Unlock()
			if t == nil || t.car == nil {
				s.log.Emit("skip", tr.E{"why": "no carrier"})
				break
			}
			s.log.Emit("reg", tr.E{"what": "fail", "t": st.T})
			t.car.Fail()
		case "ctxcancel":
			s.mu.Lock()
			t := s.tun[st.T]
			s.mu.Unlock()
			if t == nil {
				break
			}
			s.log.Emit("reg", tr.E{"what": "ctxcancel", "t": st.T})
			t.cancel()
		case "rpc":
			// asynchronously: while a tunnel is held half-way through being unregistered an RPC
			// routed to it only ends once it is released
			go func() {
				resp := new(wrapperspb.BytesValue)
				var via grpctunnel.TunnelChannel
				err := s.via(st.Via).Invoke(context.Background(), "/verif.Reg/Who", &wrapperspb.BytesValue{}, resp, grpctunnel.WithTunnelChannel(&via))
				served := 0
				if err == nil {
					fmt.Sscanf(string(resp.Value), "%d", &served)
				}
				viaT := 0
				if via != nil {
					viaT = s.tunOfChan(via)
				}
				s.log.Emit("reg", errFields(tr.E{"what": "rpc", "via": st.Via, "served": served, "chan": viaT}, err))
			}()
		case "rpcseq":
			// st.Op RPCs one after the other through the same pooled channel, all with ONE WithTunnelChannel location (as an
			// application with a long-lived variable would use it): it must name the tunnel of each RPC in turn.
			// Only used where nothing is held at a gate (an RPC routed to a held tunnel would block the driver).
			var loc grpctunnel.TunnelChannel
			for k := 0; k < st.Op; k++ {
				resp := new(wrapperspb.BytesValue)
				err := s.via(st.Via).Invoke(context.Background(), "/verif.Reg/Who", &wrapperspb.BytesValue{}, resp, grpctunnel.WithTunnelChannel(&loc))
				served, viaT := 0, 0
				if err == nil {
					fmt.Sscanf(string(resp.Value), "%d", &served)
					if loc != nil {
						viaT = s.tunOfChan(loc)
					}
				}
				s.log.Emit("reg", errFields(tr.E{"what": "rpc", "via": st.Via, "served": served, "chan": viaT}, err))
			}
		case "ready":
			s.log.Emit("reg", tr.E{"what": "ready", "via": st.Via, "val": s.via(st.Via).Ready()})
		case "waitready":
			ctx, cancel := context.WithCancel(context.Background())
			s.mu.Lock()
			s.pending[st.Op] = cancel
			s.mu.Unlock()
			s.log.Emit("reg", tr.E{"what": "wait.start", "via": st.Via, "op": st.Op})
			go func() {
				err := s.via(st.Via).WaitForReady(ctx)
				s.mu.Lock()
				delete(s.pending, st.Op)
				s.mu.Unlock()
				s.log.Emit("reg", errFields(tr.E{"what": "wait.ret", "via": st.Via, "op": st.Op}, err))
			}()
		case "waitcancel":
			s.mu.Lock()
			c := s.pending[st.Op]
			s.mu.Unlock()
			if c != nil {
				s.log.Emit("reg", tr.E{"what": "wait.cancel", "op": st.Op})
				c()
			}
		case "release":
			key := fmt.Sprintf("%s@%d", st.Point, st.T)
			s.mu.Lock()
			ch := s.parked[key]
			delete(s.parked, key)
			s.mu.Unlock()
			if ch != nil {
				close(ch)
			} else {
				s.log.Emit("skip", tr.E{"why": "not parked"})
			}
		}
		synctest.Wait()
		s.quiesce(false)
	}
	// teardown: release everything, end every tunnel
	s.log.Emit("step", tr.E{"k": len(scn.Steps), "do": "teardown", "t": 0, "via": "", "key": ""})
	close(s.quit)
	s.mu.Lock()
	for k, ch := range s.parked {
		close(ch)
		delete(s.parked, k)
	}
	for _, c := range s.pending {
		c()
	}
	tuns := []*regTunnel{}
	for _, t := range s.tun {
		tuns = append(tuns, t)
	}
	s.mu.Unlock()
	for _, t := range tuns {
		t.cancel()
		go t.rts.Stop()
	}
	synctest.Wait()
	s.quiesce(true)
	for _, t := range tuns {
		if t.car != nil {
			t.car.Finished()
		}
	}
	return s.log
}

func TestRegistry(t *testing.T) {
	in := os.Getenv("VERIF_SCENARIOS")
	if in == "" || os.Getenv("VERIF_REGISTRY") == "" {
		t.Skip("VERIF_REGISTRY not set")
	}
	f, err := os.Open(in)
	if err != nil {
		t.Fatal(err)
	}
	defer f.Close()
	out, err := os.OpenFile(os.Getenv("VERIF_TRACES"), os.O_CREATE|os.O_WRONLY|os.O_APPEND, 0o644)
	if err != nil {
		t.Fatal(err)
	}
	defer out.Close()
	prog := os.Getenv("VERIF_PROGRESS")
	skip := 0
	fmt.Sscanf(os.Getenv("VERIF_SKIP"), "%d", &skip)
	sc := bufio.NewScanner(f)
	sc.Buffer(make([]byte, 1<<20), 1<<26)
	idx := -1
	for sc.Scan() {
		idx++
		if idx < skip {
			continue
		}
		var scn regScenario
		if err := json.Unmarshal(sc.Bytes(), &scn); err != nil {
			t.Fatalf("scenario %d: %v", idx, err)
		}
		if prog != "" {
			_ = os.WriteFile(prog, []byte(fmt.Sprintf("%d %s\n", idx, scn.Name)), 0o644)
		}
		if side := os.Getenv("VERIF_TRACES"); side != "" {
			if sf, err := os.OpenFile(side+".scn", os.O_CREATE|os.O_WRONLY|os.O_APPEND, 0o644); err == nil {
				b, _ := json.Marshal(map[string]any{"trace": idx, "scn": idx, "k": -1, "scenario": scn})
				sf.Write(append(b, '\n'))
				sf.Close()
			}
		}
		synctest.Test(t, func(t *testing.T) {
			log := runRegistry(scn)
			fmt.Fprintf(out, "{\"ev\":\"reset\",\"i\":0,\"idx\":%d,\"scn\":%d,\"k\":-1}\n", idx, idx)
			if err := log.Write(out); err != nil {
				t.Fatal(err)
			}
		})
	}
	if prog != "" {
		_ = os.WriteFile(prog, []byte("done\n"), 0o644)
	}
}
