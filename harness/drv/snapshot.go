package drv

import (
	"runtime"
	"sort"
	"strings"
)

// G is one goroutine of a stack snapshot.
type G struct {
	ID      string
	State   string   // wait reason as printed by the runtime, e.g. "chan receive"
	Durable bool     // "(durable)" marker of synctest
	Bubble  string   // bubble number or ""
	Funcs   []string // function names, top first
	Root    string   // bottom-most function
	Created string   // "created by" function
}

const libPrefix = "github.com/jhump/grpctunnel."

// Snapshot parses runtime.Stack(all).
func Snapshot() []G {
	buf := make([]byte, 1<<20)
	for {
		n := runtime.Stack(buf, true)
		if n < len(buf) {
			buf = buf[:n]
			break
		}
		buf = make([]byte, 2*len(buf))
	}
	var out []G
	for _, blk := range strings.Split(string(buf), "\n\n") {
		lines := strings.Split(strings.TrimSpace(blk), "\n")
		if len(lines) == 0 || !strings.HasPrefix(lines[0], "goroutine ") {
			continue
		}
		var g G
		hdr := lines[0]
		// goroutine 12 [chan receive (durable), synctest bubble 7]:
		sp := strings.IndexByte(hdr[len("goroutine "):], ' ')
		g.ID = hdr[len("goroutine ") : len("goroutine ")+sp]
		if lb, rb := strings.IndexByte(hdr, '['), strings.LastIndexByte(hdr, ']'); lb >= 0 && rb > lb {
			for i, part := range strings.Split(hdr[lb+1:rb], ", ") {
				switch {
				case i == 0:
					st := part
					if strings.HasSuffix(st, " (durable)") {
						g.Durable = true
						st = strings.TrimSuffix(st, " (durable)")
					}
					g.State = st
				case strings.HasPrefix(part, "synctest bubble "):
					g.Bubble = strings.TrimPrefix(part, "synctest bubble ")
				}
			}
		}
		for _, ln := range lines[1:] {
			if strings.HasPrefix(ln, "\t") {
				continue
			}
			if strings.HasPrefix(ln, "created by ") {
				c := strings.TrimPrefix(ln, "created by ")
				if i := strings.Index(c, " in goroutine"); i >= 0 {
					c = c[:i]
				}
				g.Created = c
				continue
			}
			// function line: pkg.Func(args...)
			if i := strings.LastIndexByte(ln, '('); i > 0 {
				g.Funcs = append(g.Funcs, ln[:i])
			} else {
				g.Funcs = append(g.Funcs, ln)
			}
		}
		if len(g.Funcs) > 0 {
			g.Root = g.Funcs[len(g.Funcs)-1]
		}
		out = append(out, g)
	}
	return out
}

// Running reports whether the goroutine may still make progress on its own.
func (g G) Blocked() bool {
	switch g.State {
	case "running", "runnable", "syscall", "":
		return false
	}
	if strings.HasPrefix(g.State, "GC ") || g.State == "preempted" || g.State == "copystack" {
		return false
	}
	return true
}

// HasLib reports whether any frame belongs to the library under test.
func (g G) HasLib() bool {
	for _, f := range g.Funcs {
		if strings.HasPrefix(f, libPrefix) {
			return true
		}
	}
	return false
}

// LibRooted reports whether the goroutine was started by the library.
func (g G) LibRooted() bool { return strings.HasPrefix(g.Root, libPrefix) }

// TopLib returns the top-most library function (short name) or "".
func (g G) TopLib() string {
	for _, f := range g.Funcs {
		if strings.HasPrefix(f, libPrefix) {
			return strings.TrimPrefix(f, libPrefix)
		}
	}
	return ""
}

func shortRoots(gs []G) []string {
	var out []string
	for _, g := range gs {
		out = append(out, strings.TrimPrefix(g.Root, libPrefix))
	}
	sort.Strings(out)
	return out
}
