package drv

import (
	"bytes"
	"encoding/binary"
	"hash/crc32"

	"google.golang.org/protobuf/proto"
	"google.golang.org/protobuf/types/known/wrapperspb"
)

// Messages are wrapperspb.BytesValue. The payload of message number idx sent by
// side ("c" = caller, "s" = handler) of RPC rpc with payload length n is a
// deterministic byte string; when n >= hdrLen it starts with a header that
// identifies (rpc, side, idx, n), so that identity, order, duplication,
// truncation, merging and cross-RPC delivery are recognisable on receipt.

const hdrLen = 16

func sideByte(side string) byte {
	if side == "s" {
		return 's'
	}
	return 'c'
}

// Payload returns the payload bytes of length n for the given identity.
func Payload(rpc int, side string, idx int, n int) []byte {
	b := make([]byte, n)
	seed := uint32(rpc)*2654435761 ^ uint32(idx)*40503 ^ uint32(sideByte(side))<<24 ^ uint32(n)*97
	x := seed | 1
	for i := range b {
		x ^= x << 13
		x ^= x >> 17
		x ^= x << 5
		b[i] = byte(x)
	}
	if n >= hdrLen {
		binary.BigEndian.PutUint32(b[0:], uint32(rpc))
		b[4] = sideByte(side)
		binary.BigEndian.PutUint32(b[5:], uint32(idx))
		binary.BigEndian.PutUint32(b[9:], uint32(n))
		// 3 bytes of checksum over the identity
		c := crc32.ChecksumIEEE(b[:13])
		b[13], b[14], b[15] = byte(c>>16), byte(c>>8), byte(c)
	}
	return b
}

// Msg builds the message with the given identity and payload length.
func Msg(rpc int, side string, idx int, n int) *wrapperspb.BytesValue {
	return &wrapperspb.BytesValue{Value: Payload(rpc, side, idx, n)}
}

// WireSize is the number of bytes the tunnel has to carry for a payload of n.
func WireSize(n int) int {
	return proto.Size(&wrapperspb.BytesValue{Value: make([]byte, n)})
}

// PayloadForWire returns the payload length whose wire size is closest to (and
// not above) w.
func PayloadForWire(w int) int {
	if w <= 0 {
		return 0
	}
	n := w
	for n > 0 && WireSize(n) > w {
		n--
	}
	return n
}

// Ident is what a receiving application recognises in a message it obtained.
type Ident struct {
	Rpc    int
	Side   string
	Idx    int
	N      int // payload length
	Intact bool
}

// Identify recognises a received message. expRpc/expSide/expIdx say what the
// receiver would expect next by position; they are used only for messages too
// short to carry a header.
func Identify(m *wrapperspb.BytesValue, expRpc int, expSide string, expIdx int) Ident {
	b := m.GetValue()
	n := len(b)
	if n >= hdrLen {
		c := crc32.ChecksumIEEE(b[:13])
		if b[13] == byte(c>>16) && b[14] == byte(c>>8) && b[15] == byte(c) {
			id := Ident{
				Rpc:  int(binary.BigEndian.Uint32(b[0:])),
				Side: string(rune(b[4])),
				Idx:  int(binary.BigEndian.Uint32(b[5:])),
				N:    n,
			}
			claimed := int(binary.BigEndian.Uint32(b[9:]))
			id.Intact = claimed == n && (id.Side == "c" || id.Side == "s") && bytes.Equal(b, Payload(id.Rpc, id.Side, id.Idx, n))
			return id
		}
		return Ident{Rpc: -1, Side: expSide, Idx: -1, N: n, Intact: false}
	}
	return Ident{Rpc: expRpc, Side: expSide, Idx: expIdx, N: n, Intact: bytes.Equal(b, Payload(expRpc, expSide, expIdx, n))}
}
