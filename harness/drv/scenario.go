package drv

import (
	"encoding/hex"
	"strings"

	"google.golang.org/grpc/metadata"
)

// Config of one scenario (one tunnel).
type Config struct {
	Dir     string `json:"dir"`               // "fwd" | "rev"
	CliNoFC bool   `json:"cliNoFC,omitempty"` // tunnel client end disables flow control
	SrvNoFC bool   `json:"srvNoFC,omitempty"` // tunnel server end disables flow control
	// RawCli / RawSrv: that tunnel end is played by the driver with raw frames;
	// "neg" = advertises negotiation in the opening headers, "legacy" = does not.
	RawCli string `json:"rawCli,omitempty"`
	RawSrv string `json:"rawSrv,omitempty"`
	Cap    int    `json:"cap,omitempty"`
	Auto   bool   `json:"auto,omitempty"`
	// Gates: yield points ("point" or "point@sid") at which goroutines are held
	// until a release step.
	Gates []string `json:"gates,omitempty"`
	// Hooks: which hook events are logged: "" (standard: all but the sender's
	// atomic steps), "all", "none".
	Hooks    string              `json:"hooks,omitempty"`
	TunnelMD map[string][]string `json:"tunnelMD,omitempty"`
	// Icept: the tunnel-opening call passes through a client stream interceptor that adds a
	// metadata key (as grpc.WithChainStreamInterceptor / grpchan.InterceptClientConn would)
	Icept bool `json:"icept,omitempty"`
	// Nested: the RPCs of the scenario run over an INNER forward tunnel that is opened through the (outer)
	// tunnel of the scenario: the outer tunnel's server serves the tunnel service of an inner handler, the
	// inner channel is started over the outer channel with NestedMD as its opening metadata
	Nested bool `json:"nested,omitempty"`
	// PreTunnel: another tunnel ("nofc": its peer has flow control disabled) is opened through the same handler and ended before this one
	PreTunnel string              `json:"preTunnel,omitempty"`
	NestedMD  map[string][]string `json:"nestedMD,omitempty"`
	// KeepSending: the scripted applications go on sending after a send failed (illegal
	// applications, for the shape-enforcement scenarios).
	KeepSending bool `json:"keepSending,omitempty"`
	// Snap: take a goroutine snapshot at every quiescent point (else only at
	// the end).
	Snap bool `json:"snap,omitempty"`
}

// Step is one driver action.
type Step struct {
	Do  string `json:"do"`
	End string `json:"end,omitempty"` // "c" caller side, "s" handler side
	Rpc int    `json:"rpc,omitempty"`
	Act string `json:"act,omitempty"` // actor: "m" (main) or "a" (auxiliary)
	Op  string `json:"op,omitempty"`

	Shape   string              `json:"shape,omitempty"`  // unary|cstream|sstream|bidi
	Method  string              `json:"method,omitempty"` // overrides the method name derived from Shape
	N       int                 `json:"n,omitempty"`      // payload length (send), count (deliver)
	MD      map[string][]string `json:"md,omitempty"`
	Timeout int64               `json:"timeout,omitempty"` // ms, for op new/invoke
	Opts    []string            `json:"opts,omitempty"`    // call options: hdr trl peer creds creds+ chan
	Code    int                 `json:"code,omitempty"`
	Msg     string              `json:"msg,omitempty"`
	Det     int                 `json:"det,omitempty"`
	Dir     string              `json:"dir,omitempty"` // deliver: c2s|s2c
	Ms      int64               `json:"ms,omitempty"`  // advance
	Point   string              `json:"point,omitempty"`
	Sid     int64               `json:"sid,omitempty"`
	Frame   *RawFrame           `json:"frame,omitempty"`
	Count   int                 `json:"count,omitempty"`
}

// Scenario is a configuration plus a sequence of driver steps.
type Scenario struct {
	Name  string `json:"name"`
	Cfg   Config `json:"cfg"`
	Steps []Step `json:"steps"`
	// RPCs and Policy: scripted applications scheduled online (after Steps).
	RPCs   []RPCScript `json:"rpcs,omitempty"`
	Policy *Policy     `json:"policy,omitempty"`
	// Late: scripts that join the schedule only after the first fault fired.
	Late []RPCScript `json:"late,omitempty"`
	// Meta is copied to the trace header for the orchestrator.
	Meta map[string]any `json:"meta,omitempty"`
}

// decodeVal inverts wire.Val.
func decodeVal(s string) string {
	if strings.HasPrefix(s, "0x") {
		if b, err := hex.DecodeString(s[2:]); err == nil {
			return string(b)
		}
	}
	return s
}

// toMD converts scenario metadata (values in wire.Val encoding) to metadata.MD.
// nil stays nil.
func toMD(m map[string][]string) metadata.MD {
	if m == nil {
		return nil
	}
	md := metadata.MD{}
	for k, vs := range m {
		if k == "_" {
			continue
		}
		c := make([]string, len(vs))
		for i, v := range vs {
			c[i] = decodeVal(v)
		}
		md[k] = c
	}
	return md
}
