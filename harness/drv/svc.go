package drv

import (
	"context"
	"fmt"
	"sync"
	"time"

	"google.golang.org/grpc"
	"google.golang.org/grpc/codes"
	"google.golang.org/grpc/metadata"
	"google.golang.org/grpc/peer"
	"google.golang.org/grpc/status"
	"google.golang.org/protobuf/types/known/wrapperspb"

	"github.com/jhump/grpctunnel"

	"verif/harness/tr"
	"verif/harness/wire"
)

// The scripted service: four methods, one per call shape. A handler registers
// itself with the session under the RPC number found in the request metadata
// ("x-rpc") and then executes the ops the driver hands it, one at a time.

type service struct{ s *Session }

type svcIface interface{}

var serviceDesc = grpc.ServiceDesc{
	ServiceName: "verif.Svc",
	HandlerType: (*svcIface)(nil),
	Methods: []grpc.MethodDesc{{
		MethodName: "Unary",
		Handler: func(srv any, ctx context.Context, dec func(any) error, _ grpc.UnaryServerInterceptor) (any, error) {
			return srv.(*service).serve(ctx, "unary", nil, dec)
		},
	}},
	Streams: []grpc.StreamDesc{
		{StreamName: "CStream", ClientStreams: true, Handler: func(srv any, ss grpc.ServerStream) error {
			_, err := srv.(*service).serve(ss.Context(), "cstream", ss, nil)
			return err
		}},
		{StreamName: "SStream", ServerStreams: true, Handler: func(srv any, ss grpc.ServerStream) error {
			_, err := srv.(*service).serve(ss.Context(), "sstream", ss, nil)
			return err
		}},
		{StreamName: "Bidi", ClientStreams: true, ServerStreams: true, Handler: func(srv any, ss grpc.ServerStream) error {
			_, err := srv.(*service).serve(ss.Context(), "bidi", ss, nil)
			return err
		}},
	},
}

func (sv *service) serve(ctx context.Context, shape string, ss grpc.ServerStream, dec func(any) error) (any, error) {
	s := sv.s
	md, _ := metadata.FromIncomingContext(ctx)
	n := wire.RPCTag(wire.MD(md))
	s.mu.Lock()
	s.nInvoked++
	if n == 0 && len(s.untagged) > 0 {
		// an RPC the caller started without any metadata carries no tag:
		// it is the oldest such RPC not yet matched
		n = s.untagged[0]
		s.untagged = s.untagged[1:]
	}
	if n == 0 {
		n = 1000 + s.nInvoked
	}
	s.mu.Unlock()
	r := s.getRPC(n)
	a := &actor{end: "s", rpc: n, name: "m", cmds: make(chan Step)}
	s.mu.Lock()
	dup := r.hlive || r.hret != nil
	if !dup {
		r.hctx, r.hss, r.hdec = ctx, ss, dec
		r.hact["m"] = a
		r.hlive = true
		r.hret = make(chan hresult, 1)
	}
	s.mu.Unlock()
	method, _ := grpc.Method(ctx)
	f := tr.E{"rpc": n, "shape": shape, "method": wire.Val(method), "md": wire.MD(md), "dup": dup}
	if dl, ok := ctx.Deadline(); ok {
		f["dl"] = int64(time.Until(dl))
		f["hasdl"] = true
	} else {
		f["dl"] = int64(0)
		f["hasdl"] = false
	}
	tmd, _ := grpctunnel.TunnelMetadataFromIncomingContext(ctx)
	f["tmd"] = wire.MD(tmd)
	// whatever the accessors return is the caller's to change
	mutate(tmd)
	mutate(md)
	iv, _ := ctx.Value(ctxValKey{}).(string)
	f["ival"] = iv
	if p, ok := peer.FromContext(ctx); ok && p.Addr != nil {
		f["peer"] = p.Addr.String()
	} else {
		f["peer"] = ""
	}
	s.emit("invoked", f)
	if dup {
		// a second invocation for the same RPC: a violation the monitor reports;
		// do not run a second scripted handler
		return nil, status.Error(codes.Aborted, "duplicate invocation")
	}
	defer func() {
		s.mu.Lock()
		r.hlive = false
		aux := r.hact["a"]
		s.mu.Unlock()
		_ = aux
	}()
	if s.free.Load() {
		return s.serveFree(r, a, shape, n)
	}
	for {
		select {
		case st := <-a.cmds:
			if st.Op == "ret" {
				s.opStart(a, st, tr.E{"code": st.Code, "msg": st.Msg, "det": StatusDet(st.Det), "n": st.N, "size": WireSize(max(st.N, 0))})
				err := mkStatus(st.Code, st.Msg, st.Det)
				var resp any
				if shape == "unary" && st.N >= 0 {
					idx := r.sentS
					r.sentS++
					resp = Msg(n, "s", idx, st.N)
				}
				s.mu.Lock()
				r.hlive = false
				s.mu.Unlock()
				s.opRet(a, st, errFields(tr.E{}, nil))
				a.setCur(nil)
				return resp, err
			}
			s.handlerOp(r, a, st)
			a.setCur(nil)
		case <-s.quit:
			s.emit("hquit", tr.E{"rpc": n})
			return nil, status.Error(codes.Aborted, "harness teardown")
		}
	}
}

func (s *Session) handlerAux(r *rpcState, a *actor) {
	for {
		select {
		case st := <-a.cmds:
			s.handlerOp(r, a, st)
			a.setCur(nil)
		case <-s.quit:
			return
		}
	}
}

func (s *Session) handlerOp(r *rpcState, a *actor, st Step) {
	switch st.Op {
	case "recv":
		s.opStart(a, st, nil)
		m := new(wrapperspb.BytesValue)
		var err error
		if r.hss != nil {
			err = r.hss.RecvMsg(m)
		} else {
			err = r.hdec(m)
		}
		f := errFields(tr.E{}, err)
		if isDecodeErr(err) {
			f["cls"] = "garbled"
		}
		if err == nil {
			id := Identify(m, r.n, "c", r.gotS)
			r.gotS++
			f["m"] = identFields(id)
		}
		f["ctxdone"] = r.hctx.Err() != nil
		s.opRet(a, st, f)
	case "send":
		idx := r.sentS
		r.sentS++
		s.opStart(a, st, tr.E{"idx": idx, "n": st.N, "size": WireSize(st.N)})
		var err error
		if r.hss != nil {
			err = r.hss.SendMsg(Msg(r.n, "s", idx, st.N))
		} else {
			err = fmt.Errorf("unary handler cannot send")
		}
		if err != nil {
			s.markSendFailed(r.n, "s")
		}
		s.opRet(a, st, errFields(tr.E{"idx": idx}, err))
	case "sethdr", "sendhdr":
		s.opStart(a, st, tr.E{"md": wire.MD(toMD(st.MD))})
		var err error
		md := toMD(st.MD)
		switch {
		case r.hss != nil && st.Op == "sethdr":
			err = r.hss.SetHeader(md)
		case r.hss != nil:
			err = r.hss.SendHeader(md)
		case st.Op == "sethdr":
			err = grpc.SetHeader(r.hctx, md)
		default:
			err = grpc.SendHeader(r.hctx, md)
		}
		// the application goes on using ITS map (say, to build the trailers): what it set stays what it was
		mutate(md)
		s.opRet(a, st, errFields(tr.E{}, err))
	case "settrl":
		s.opStart(a, st, tr.E{"md": wire.MD(toMD(st.MD))})
		var err error
		tmd := toMD(st.MD)
		if r.hss != nil {
			r.hss.SetTrailer(tmd)
		} else {
			err = grpc.SetTrailer(r.hctx, tmd)
		}
		mutate(tmd)
		s.opRet(a, st, errFields(tr.E{}, err))
	case "ctxwait":
		s.opStart(a, st, nil)
		select {
		case <-r.hctx.Done():
		case <-s.quit:
		}
		s.opRet(a, st, errFields(tr.E{}, r.hctx.Err()))
	default:
		s.opStart(a, st, nil)
		s.opRet(a, st, errFields(tr.E{}, fmt.Errorf("unknown op %q", st.Op)))
	}
}

// serveFree runs the handler's scripts on their own (free-running mode).
func (s *Session) serveFree(r *rpcState, a *actor, shape string, n int) (any, error) {
	s.mu.Lock()
	rs := s.scripts[n]
	s.mu.Unlock()
	var wg sync.WaitGroup
	if aux := rs.S["a"]; len(aux) > 0 {
		ax := &actor{end: "s", rpc: n, name: "a", cmds: make(chan Step)}
		s.mu.Lock()
		r.hact["a"] = ax
		s.mu.Unlock()
		wg.Add(1)
		go func() {
			defer wg.Done()
			for _, st := range aux {
				st.Do, st.End, st.Rpc, st.Act = "op", "s", n, "a"
				stc := st
				ax.setCur(&stc)
				s.handlerOp(r, ax, st)
				ax.setCur(nil)
			}
		}()
	}
	for _, st := range rs.S["m"] {
		st.Do, st.End, st.Rpc, st.Act = "op", "s", n, "m"
		if st.Op == "send" && s.sendFailed(n, "s") {
			continue
		}
		if st.Op == "ret" {
			wg.Wait()
			s.opStart(a, st, tr.E{"code": st.Code, "msg": st.Msg, "det": StatusDet(st.Det), "n": st.N, "size": WireSize(max(st.N, 0))})
			err := mkStatus(st.Code, st.Msg, st.Det)
			var resp any
			if shape == "unary" && st.N >= 0 {
				idx := r.sentS
				r.sentS++
				resp = Msg(n, "s", idx, st.N)
			}
			s.mu.Lock()
			r.hlive = false
			s.mu.Unlock()
			s.opRet(a, st, errFields(tr.E{}, nil))
			return resp, err
		}
		stc := st
		a.setCur(&stc)
		s.handlerOp(r, a, st)
		a.setCur(nil)
	}
	wg.Wait()
	s.mu.Lock()
	r.hlive = false
	s.mu.Unlock()
	return nil, status.Error(codes.Aborted, "script without return")
}
