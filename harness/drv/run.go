package drv

import (
	"runtime"
	"time"

	"github.com/jhump/grpctunnel"
	"github.com/jhump/grpctunnel/tunnelpb"

	"verif/harness/sim"
	"verif/harness/tr"
	"verif/harness/wire"
)

// RawFrame is a frame injected by a raw peer.
type RawFrame = wire.Raw

// Run executes the scenario inside the current synctest bubble and returns the
// log. It must be called from within synctest.Test.
func Run(sc Scenario) *tr.Log {
	log, _ := RunCount(sc)
	return log
}

// RunCount is Run, also returning the number of policy steps executed.
func RunCount(sc Scenario) (*tr.Log, int) {
	grpctunnel.VerifForget()
	s := NewSession(sc.Cfg)
	s.installHooks()
	defer uninstallHooks()
	meta := map[string]any{"_": 0}
	for k, v := range sc.Meta {
		meta[k] = v
	}
	s.emit("scenario", tr.E{"name": sc.Name, "meta": meta})
	k := 0
	for _, st := range sc.Steps {
		s.step(k, st)
		k++
	}
	n := 0
	if sc.Policy != nil && sc.Policy.Kind == "free" {
		s.free.Store(true)
		s.emit("step", tr.E{"k": k, "do": "free"})
		s.runFree(&sc, &k)
		s.quiesce(false)
		s.free.Store(false)
	} else if sc.Policy != nil {
		n = s.runPolicy(&sc, &k)
		if !sc.Policy.NoDrain {
			s.step(k, Step{Do: "drain"})
			k++
		}
	}
	s.teardown()
	return s.Log, n
}

func (s *Session) step(k int, st Step) {
	f := tr.E{"k": k, "do": st.Do}
	switch st.Do {
	case "op":
		f["end"], f["rpc"], f["act"], f["op"] = st.End, st.Rpc, actName(st.Act), st.Op
	case "deliver":
		f["dir"] = st.Dir
	case "cancel":
		f["rpc"] = st.Rpc
	case "advance":
		f["ms"] = st.Ms
	case "release":
		f["point"], f["sid"] = st.Point, st.Sid
	}
	s.emit("step", f)
	ok, why := s.exec(st)
	if !ok {
		s.emit("skip", tr.E{"k": k, "why": why})
	}
	s.settle()
	s.quiesce(false)
}

func actName(a string) string {
	if a == "" {
		return "m"
	}
	return a
}

func (s *Session) exec(st Step) (bool, string) {
	switch st.Do {
	case "open":
		s.open()
	case "op":
		return s.dispatch(st)
	case "deliver":
		n := st.N
		if n <= 0 {
			n = 1
		}
		for i := 0; i < n; i++ {
			if !s.deliver(st.Dir) {
				return false, "nothing-to-deliver"
			}
			if i+1 < n {
				s.settle()
			}
		}
	case "drain":
		// deliver everything in both directions until nothing is in flight
		for i := 0; i < 100000; i++ {
			if !s.deliver("c2s") && !s.deliver("s2c") {
				break
			}
			s.settle()
		}
	case "cancel":
		r := s.getRPC(st.Rpc)
		s.mu.Lock()
		cancel := r.cancel
		s.mu.Unlock()
		if cancel == nil {
			return false, "no-ctx"
		}
		s.emit("ctl", tr.E{"what": "cancel", "rpc": st.Rpc})
		cancel()
	case "heap":
		// the live heap of the process after a full collection (what the endpoints hold on to right now)
		runtime.GC()
		var ms runtime.MemStats
		runtime.ReadMemStats(&ms)
		s.emit("heap", tr.E{"mb": int64(ms.HeapAlloc >> 20)})
	case "advance":
		s.emit("ctl", tr.E{"what": "advance", "ms": st.Ms})
		time.Sleep(time.Duration(st.Ms) * time.Millisecond)
	case "close":
		ch := s.channel()
		if ch == nil {
			return false, "no-channel"
		}
		s.emit("ctl", tr.E{"what": "close"})
		go func() {
			ch.Close()
			s.emit("ctl", tr.E{"what": "close.ret"})
		}()
	case "ctxcancel":
		s.emit("ctl", tr.E{"what": "ctxcancel"})
		s.tunStop()
	case "carfail":
		c := s.carrier()
		if c == nil {
			return false, "no-carrier"
		}
		c.Fail()
	case "sendfail":
		// the next Send of a frame of kind st.Point from the tunnel end st.Dir ("c2s": the tunnel client's, "s2c": the
		// tunnel server's) fails, the stream stays otherwise healthy
		c := s.carrier()
		if c == nil {
			return false, "no-carrier"
		}
		end := "cli"
		if (st.Dir == "s2c") != (s.Cfg.Dir == "rev") {
			end = "srv"
		}
		c.FailNextSend(end, st.Point)
	case "srvgone":
		c := s.carrier()
		if c == nil {
			return false, "no-carrier"
		}
		c.ServerGone()
	case "gstop":
		if s.rts == nil {
			return false, "no-rts"
		}
		s.emit("ctl", tr.E{"what": "shutdown"})
		go func() {
			s.rts.GracefulStop()
			s.emit("ctl", tr.E{"what": "gstop.ret"})
		}()
	case "shutdown":
		s.emit("ctl", tr.E{"what": "shutdown"})
		if s.Cfg.Dir == "fwd" {
			s.handler.InitiateShutdown()
		} else if s.rts != nil {
			go func() {
				s.rts.GracefulStop()
				s.emit("ctl", tr.E{"what": "gstop.ret"})
			}()
		}
	case "stop":
		if s.rts == nil {
			return false, "no-rts"
		}
		s.emit("ctl", tr.E{"what": "stop"})
		go func() {
			s.rts.Stop()
			s.emit("ctl", tr.E{"what": "stop.ret"})
		}()
	case "release":
		if !s.release(st.Point, st.Sid) {
			return false, "not-parked"
		}
	case "raw":
		return s.rawSend(st)
	case "rawend":
		// the raw network end finishes its side: a raw network client half-closes,
		// a raw network server returns from its handler with the given status
		c := s.carrier()
		if c == nil {
			return false, "no-carrier"
		}
		netClientRaw := (s.Cfg.Dir == "fwd" && s.Cfg.RawCli != "") || (s.Cfg.Dir == "rev" && s.Cfg.RawSrv != "")
		if netClientRaw {
			ce := &sim.ClientEnd[tunnelpb.ClientToServer, tunnelpb.ServerToClient, *tunnelpb.ClientToServer, *tunnelpb.ServerToClient]{C: c}
			_ = ce.CloseSend()
		} else {
			c.HandlerReturned(mkStatus(st.Code, st.Msg, 0))
		}
	default:
		return false, "unknown-step"
	}
	return true, ""
}

// deliver releases one frame of the given wire direction to its receiving end.
func (s *Session) deliver(dir string) bool {
	c := s.carrier()
	if c == nil {
		return false
	}
	rawRecv := (dir == "c2s" && s.Cfg.RawSrv != "") || (dir == "s2c" && s.Cfg.RawCli != "")
	if rawRecv {
		_, ok := c.Discard(dir)
		return ok
	}
	return c.Release(dir)
}

// rawSend injects a frame on behalf of a raw tunnel end.
func (s *Session) rawSend(st Step) (bool, string) {
	c := s.carrier()
	if c == nil || st.Frame == nil {
		return false, "no-carrier"
	}
	fr := *st.Frame
	var data []byte
	if fr.Kind == "msg" || fr.Kind == "more" {
		if fr.Rpc > 0 {
			full := Msg(fr.Rpc, fr.Side, fr.Idx, PayloadForWire(int(fr.Size)))
			b := mustMarshal(full)
			lo, hi := fr.Off, fr.Off+fr.Len
			if hi > int64(len(b)) {
				// beyond the message: pad with zeros
				b = append(b, make([]byte, hi-int64(len(b)))...)
			}
			data = b[lo:hi]
		} else {
			data = make([]byte, fr.Len)
		}
	}
	if fr.MD != nil {
		for k, vs := range fr.MD {
			for i := range vs {
				vs[i] = decodeVal(vs[i])
			}
			fr.MD[k] = vs
		}
	}
	fr.Method = decodeVal(fr.Method)
	fr.Msg = decodeVal(fr.Msg)
	// which tunnel end is raw decides the frame type; which network end it is
	// decides the carrier method.
	var err error
	if s.Cfg.RawCli != "" {
		m := fr.C2S(data)
		if s.Cfg.Dir == "fwd" {
			err = (&sim.ClientEnd[tunnelpb.ClientToServer, tunnelpb.ServerToClient, *tunnelpb.ClientToServer, *tunnelpb.ServerToClient]{C: c, Desc: wire.Desc}).SendMsg(m)
		} else {
			err = (&sim.ServerEnd[tunnelpb.ServerToClient, tunnelpb.ClientToServer, *tunnelpb.ServerToClient, *tunnelpb.ClientToServer]{C: c, Desc: wire.Desc}).SendMsg(m)
		}
	} else {
		m := fr.S2C(data)
		if s.Cfg.Dir == "fwd" {
			err = (&sim.ServerEnd[tunnelpb.ClientToServer, tunnelpb.ServerToClient, *tunnelpb.ClientToServer, *tunnelpb.ServerToClient]{C: c, Desc: wire.Desc}).SendMsg(m)
		} else {
			err = (&sim.ClientEnd[tunnelpb.ServerToClient, tunnelpb.ClientToServer, *tunnelpb.ServerToClient, *tunnelpb.ClientToServer]{C: c, Desc: wire.Desc}).SendMsg(m)
		}
	}
	if err != nil {
		return false, "raw-send-failed: " + err.Error()
	}
	return true, ""
}
