package drv

import (
	"context"
	"errors"
	"fmt"
	"google.golang.org/protobuf/proto"
	"io"
	"strings"
	"time"

	"google.golang.org/grpc"
	"google.golang.org/grpc/codes"
	"google.golang.org/grpc/credentials"
	"google.golang.org/grpc/metadata"
	"google.golang.org/grpc/peer"
	"google.golang.org/grpc/status"
	"google.golang.org/protobuf/types/known/anypb"
	"google.golang.org/protobuf/types/known/wrapperspb"

	"github.com/jhump/grpctunnel"

	"verif/harness/tr"
	"verif/harness/wire"
)

// errFields classifies an error for the log: cls ok|eof|err, code (-1 when the
// error carries no gRPC status), msg, det.
func errFields(f tr.E, err error) tr.E {
	switch {
	case err == nil:
		f["cls"] = "ok"
		f["code"] = 0
		f["msg"] = ""
		f["det"] = "0"
	case err == io.EOF:
		f["cls"] = "eof"
		f["code"] = 0
		f["msg"] = ""
		f["det"] = "0"
	default:
		f["cls"] = "err"
		if st, ok := status.FromError(err); ok {
			f["code"] = int(st.Code())
			f["msg"] = wire.Val(st.Message())
			f["det"] = wire.Details(st.Proto().GetDetails())
		} else {
			switch {
			case errors.Is(err, context.Canceled):
				f["code"] = int(codes.Canceled)
			case errors.Is(err, context.DeadlineExceeded):
				f["code"] = int(codes.DeadlineExceeded)
			default:
				f["code"] = -1
			}
			f["msg"] = wire.Val(err.Error())
			f["det"] = "0"
			f["plain"] = true
		}
	}
	return f
}

func mkStatus(code int, msg string, det int) error {
	if code == 0 {
		return nil
	}
	st := status.New(codes.Code(code), decodeVal(msg))
	if det > 0 {
		p := st.Proto()
		for i := 0; i < det; i++ {
			a, _ := anypb.New(wrapperspb.String(fmt.Sprintf("detail-%d", i)))
			p.Details = append(p.Details, a)
		}
		st = status.FromProto(p)
	}
	return st.Err()
}

// StatusDet is the log rendering of the details mkStatus attaches.
func StatusDet(det int) string {
	if det <= 0 {
		return "0"
	}
	var as []*anypb.Any
	for i := 0; i < det; i++ {
		a, _ := anypb.New(wrapperspb.String(fmt.Sprintf("detail-%d", i)))
		as = append(as, a)
	}
	return wire.Details(as)
}

var shapes = map[string]struct {
	method     string
	cstr, sstr bool
}{
	"unary":   {"/verif.Svc/Unary", false, false},
	"cstream": {"/verif.Svc/CStream", true, false},
	"sstream": {"/verif.Svc/SStream", false, true},
	"bidi":    {"/verif.Svc/Bidi", true, true},
}

type perRPCCreds struct {
	md     map[string]string
	secure bool
}

func (c perRPCCreds) GetRequestMetadata(context.Context, ...string) (map[string]string, error) {
	return c.md, nil
}
func (c perRPCCreds) RequireTransportSecurity() bool { return c.secure }

var _ credentials.PerRPCCredentials = perRPCCreds{}

// ---- actors -------------------------------------------------------------------------

func (s *Session) getRPC(n int) *rpcState {
	s.mu.Lock()
	defer s.mu.Unlock()
	r := s.rpcs[n]
	if r == nil {
		r = &rpcState{n: n, cact: map[string]*actor{}, hact: map[string]*actor{}}
		s.rpcs[n] = r
	}
	return r
}

// dispatch hands a step to the actor; it reports false if the actor does not
// exist (handler not invoked / already returned) or is busy.
func (s *Session) dispatch(st Step) (bool, string) {
	r := s.getRPC(st.Rpc)
	name := st.Act
	if name == "" {
		name = "m"
	}
	s.mu.Lock()
	var a *actor
	if st.End == "c" {
		a = r.cact[name]
		if a == nil {
			a = &actor{end: "c", rpc: st.Rpc, name: name, cmds: make(chan Step)}
			r.cact[name] = a
			go s.clientActor(r, a)
		}
	} else {
		a = r.hact[name]
		if a == nil && r.hlive && name == "a" {
			a = &actor{end: "s", rpc: st.Rpc, name: name, cmds: make(chan Step)}
			r.hact[name] = a
			go s.handlerAux(r, a)
		}
	}
	s.mu.Unlock()
	if a == nil {
		return false, "no-actor"
	}
	if a.current() != nil {
		return false, "busy"
	}
	if st.End == "s" && !r.hlive {
		return false, "handler-gone"
	}
	stc := st
	a.setCur(&stc)
	select {
	case a.cmds <- st:
		return true, ""
	case <-s.quit:
		a.setCur(nil)
		return false, "quit"
	}
}

func (s *Session) clientActor(r *rpcState, a *actor) {
	for {
		select {
		case st := <-a.cmds:
			s.clientOp(r, a, st)
			a.setCur(nil)
		case <-s.quit:
			return
		}
	}
}

func (s *Session) opStart(a *actor, st Step, extra tr.E) {
	f := tr.E{"end": a.end, "rpc": a.rpc, "act": a.name, "op": st.Op}
	for k, v := range extra {
		f[k] = v
	}
	s.emit("op.start", f)
}

func (s *Session) opRet(a *actor, st Step, f tr.E) {
	if st.Op != "recv" && f["cls"] == "eof" {
		// io.EOF is end-of-stream only as the result of a receive; from any other
		// call it is a plain error
		f["cls"], f["code"], f["msg"], f["plain"] = "err", -1, "EOF", true
	}
	f["end"] = a.end
	f["rpc"] = a.rpc
	f["act"] = a.name
	f["op"] = st.Op
	s.emit("op.ret", f)
}

func (s *Session) callOpts(r *rpcState, opts []string) []grpc.CallOption {
	var out []grpc.CallOption
	for _, o := range opts {
		switch o {
		case "hdr":
			r.hasHT = true
			out = append(out, grpc.Header(&r.hdrT))
		case "trl":
			r.hasTT = true
			out = append(out, grpc.Trailer(&r.trlT))
		case "peer":
			out = append(out, grpc.Peer(&peer.Peer{}))
		case "creds":
			cm := map[string]string{"x-cred": "c1"}
			if has(opts, "nomd") {
				// no outgoing metadata at all: the RPC tag travels in the credentials
				cm["x-rpc"] = fmt.Sprint(r.n)
			}
			out = append(out, grpc.PerRPCCredentials(perRPCCreds{md: cm}))
		case "creds2":
			// a second credentials option on the same call, whose keys collide with the first one's and with the
			// outgoing context's: every value travels, none replaces another
			out = append(out, grpc.PerRPCCredentials(perRPCCreds{md: map[string]string{"x-cred": "c2", "k1": "from-creds"}}))
		case "chan":
			out = append(out, grpctunnel.WithTunnelChannel(&r.chT))
		}
	}
	return out
}

func (s *Session) rpcContext(r *rpcState, st Step) {
	md := toMD(st.MD)
	if md == nil && !has(st.Opts, "nomd") {
		md = metadata.MD{}
	}
	ctx := context.Background()
	if md != nil {
		md.Set("x-rpc", fmt.Sprint(r.n))
		ctx = metadata.NewOutgoingContext(ctx, md)
	}
	var c context.Context
	var cancel context.CancelFunc
	if st.Timeout > 0 {
		c, cancel = context.WithTimeout(ctx, time.Duration(st.Timeout)*time.Millisecond)
	} else {
		c, cancel = context.WithCancel(ctx)
	}
	s.mu.Lock()
	r.ctx, r.cancel = c, cancel
	s.mu.Unlock()
}

func has(l []string, x string) bool {
	for _, e := range l {
		if e == x {
			return true
		}
	}
	return false
}

func sentMD(ctx context.Context, opts []string, rpc int) map[string][]string {
	md, _ := metadata.FromOutgoingContext(ctx)
	md = md.Copy()
	if has(opts, "creds") {
		if md == nil {
			md = metadata.MD{}
		}
		md.Append("x-cred", "c1")
		if has(opts, "nomd") {
			md.Append("x-rpc", fmt.Sprint(rpc))
		}
	}
	if has(opts, "creds2") {
		if md == nil {
			md = metadata.MD{}
		}
		md.Append("x-cred", "c2")
		md.Append("k1", "from-creds")
	}
	return wire.MD(md)
}

func (s *Session) clientOp(r *rpcState, a *actor, st Step) {
	switch st.Op {
	case "new", "invoke":
		sh, ok := shapes[st.Shape]
		if !ok {
			sh = shapes["bidi"]
		}
		method := sh.method
		if st.Method != "" {
			method = decodeVal(st.Method)
			if st.Method == "<empty>" {
				method = ""
			}
		}
		r.shape = st.Shape
		s.rpcContext(r, st)
		if has(st.Opts, "nomd") && !has(st.Opts, "creds") {
			s.mu.Lock()
			s.untagged = append(s.untagged, r.n)
			s.mu.Unlock()
		}
		opts := s.callOpts(r, st.Opts)
		ch := s.channel()
		if ch == nil {
			s.opStart(a, st, tr.E{"shape": st.Shape, "method": wire.Val(method), "md": sentMD(r.ctx, st.Opts, r.n), "timeout": st.Timeout,
				"opts": append([]string{}, st.Opts...), "idx": 0, "n": st.N, "size": WireSize(st.N)})
			s.opRet(a, st, errFields(tr.E{}, errors.New("no channel")))
			return
		}
		start := tr.E{"shape": st.Shape, "method": wire.Val(method), "md": sentMD(r.ctx, st.Opts, r.n), "timeout": st.Timeout, "opts": append([]string{}, st.Opts...)}
		if st.Op == "new" {
			s.opStart(a, st, start)
			cs, err := ch.NewStream(r.ctx, &grpc.StreamDesc{StreamName: st.Shape, ClientStreams: sh.cstr, ServerStreams: sh.sstr}, method, opts...)
			if err == nil {
				r.cs = cs
			}
			f := errFields(tr.E{}, err)
			if err == nil {
				f["chctx"] = grpctunnel.VerifChannelID(grpctunnel.TunnelChannelFromContext(cs.Context()))
				tmd, _ := grpctunnel.TunnelMetadataFromOutgoingContext(cs.Context())
				f["tmd"] = wire.MD(tmd)
				mutate(tmd)
			}
			if has(st.Opts, "chan") {
				f["chopt"] = grpctunnel.VerifChannelID(r.chT)
			}
			s.opRet(a, st, f)
			return
		}
		idx := r.sentC
		r.sentC++
		start["idx"] = idx
		start["n"] = st.N
		start["size"] = WireSize(st.N)
		s.opStart(a, st, start)
		resp := new(wrapperspb.BytesValue)
		var req proto.Message = Msg(r.n, "c", idx, st.N)
		if has(st.Opts, "badreq") {
			// a request that cannot be encoded (a string field holding invalid UTF-8)
			req = &wrapperspb.StringValue{Value: "bad\xff"}
			s.markSendFailed(r.n, "c")
		}
		err := ch.Invoke(r.ctx, method, req, resp, opts...)
		f := errFields(tr.E{}, err)
		if err == nil {
			id := Identify(resp, r.n, "s", r.gotC)
			r.gotC++
			f["m"] = identFields(id)
		}
		if r.hasHT {
			f["hdrT"] = wire.MD(r.hdrT)
		}
		if r.hasTT {
			f["trlT"] = wire.MD(r.trlT)
		}
		if has(st.Opts, "chan") {
			f["chopt"] = grpctunnel.VerifChannelID(r.chT)
		}
		s.opRet(a, st, f)
	case "send":
		idx := r.sentC
		r.sentC++
		sf := tr.E{"idx": idx, "n": st.N, "size": WireSize(st.N)}
		if has(st.Opts, "badreq") {
			sf["bad"] = true
			r.sentC--
		}
		s.opStart(a, st, sf)
		if r.cs == nil {
			s.opRet(a, st, errFields(tr.E{"idx": idx}, errors.New("no stream")))
			return
		}
		var msg proto.Message = Msg(r.n, "c", idx, st.N)
		if has(st.Opts, "badreq") {
			msg = &wrapperspb.StringValue{Value: "bad\xff"}
		}
		err := r.cs.SendMsg(msg)
		if err != nil {
			s.markSendFailed(r.n, "c")
		}
		s.opRet(a, st, errFields(tr.E{"idx": idx}, err))
	case "half":
		s.opStart(a, st, nil)
		if r.cs == nil {
			s.opRet(a, st, errFields(tr.E{}, errors.New("no stream")))
			return
		}
		err := r.cs.CloseSend()
		s.opRet(a, st, errFields(tr.E{}, err))
	case "recv":
		s.opStart(a, st, nil)
		if r.cs == nil {
			s.opRet(a, st, errFields(tr.E{}, errors.New("no stream")))
			return
		}
		m := new(wrapperspb.BytesValue)
		err := r.cs.RecvMsg(m)
		f := errFields(tr.E{}, err)
		if isDecodeErr(err) {
			// the message arrived but its bytes are not a valid payload (raw peers):
			// not a terminal result of the RPC
			f["cls"] = "garbled"
			s.opRet(a, st, f)
			return
		}
		if err == nil {
			id := Identify(m, r.n, "s", r.gotC)
			r.gotC++
			f["m"] = identFields(id)
		} else {
			// terminal result: trailers must be available right now
			f["trl"] = wire.MD(r.cs.Trailer())
			if r.hasTT {
				f["trlT"] = wire.MD(r.trlT)
			}
		}
		s.opRet(a, st, f)
	case "header":
		s.opStart(a, st, nil)
		if r.cs == nil {
			s.opRet(a, st, errFields(tr.E{}, errors.New("no stream")))
			return
		}
		md, err := r.cs.Header()
		f := errFields(tr.E{"md": wire.MD(md)}, err)
		if r.hasHT && err == nil {
			// the grpc.Header target is settled once Header() has returned the headers (a Header()
			// that fails because the context ended is not a completion signal for the target: the
			// headers frame may still be on its way)
			f["hdrT"] = wire.MD(r.hdrT)
		}
		s.opRet(a, st, f)
	case "trailer":
		s.opStart(a, st, nil)
		if r.cs == nil {
			s.opRet(a, st, errFields(tr.E{}, errors.New("no stream")))
			return
		}
		f := errFields(tr.E{"md": wire.MD(r.cs.Trailer())}, nil)
		if r.hasTT {
			f["trlT"] = wire.MD(r.trlT)
		}
		s.opRet(a, st, f)
	default:
		s.opStart(a, st, nil)
		s.opRet(a, st, errFields(tr.E{}, fmt.Errorf("unknown op %q", st.Op)))
	}
}

func isDecodeErr(err error) bool {
	if err == nil {
		return false
	}
	if _, ok := status.FromError(err); ok {
		return false
	}
	return strings.HasPrefix(err.Error(), "proto:")
}

func identFields(id Ident) tr.E {
	return tr.E{"rpc": id.Rpc, "side": id.Side, "idx": id.Idx, "n": id.N, "size": WireSize(id.N), "intact": id.Intact}
}
