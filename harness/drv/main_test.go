package drv

import (
	"bufio"
	"bytes"
	"encoding/json"
	"fmt"
	"os"
	"testing"
	"testing/synctest"

	"google.golang.org/protobuf/proto"
)

func mustMarshal(m proto.Message) []byte {
	b, err := proto.Marshal(m)
	if err != nil {
		panic(err)
	}
	return b
}

// TestScenarios runs the scenarios of the ndjson file $VERIF_SCENARIOS (one
// scenario per line), each in its own synctest bubble, and appends each trace to
// $VERIF_TRACES (ndjson; traces separated by "reset" lines). The index of the
// scenario being run is kept in $VERIF_PROGRESS so that the orchestrator can
// attribute a crash of this process.
func TestScenarios(t *testing.T) {
	in := os.Getenv("VERIF_SCENARIOS")
	if in == "" {
		t.Skip("VERIF_SCENARIOS not set")
	}
	f, err := os.Open(in)
	if err != nil {
		t.Fatal(err)
	}
	defer f.Close()
	out, err := os.OpenFile(os.Getenv("VERIF_TRACES"), os.O_CREATE|os.O_WRONLY|os.O_APPEND, 0o644)
	if err != nil {
		t.Fatal(err)
	}
	defer out.Close()
	skip := 0
	fmt.Sscanf(os.Getenv("VERIF_SKIP"), "%d", &skip)
	// continue the trace numbering of an earlier (crashed) run
	if b, err := os.ReadFile(os.Getenv("VERIF_TRACES") + ".scn"); err == nil {
		traceNo = bytes.Count(b, []byte("\n"))
	}
	prog := os.Getenv("VERIF_PROGRESS")
	sc := bufio.NewScanner(f)
	sc.Buffer(make([]byte, 1<<20), 1<<28)
	idx := -1
	for sc.Scan() {
		idx++
		if idx < skip {
			continue
		}
		var scn Scenario
		if err := json.Unmarshal(sc.Bytes(), &scn); err != nil {
			t.Fatalf("scenario %d: %v", idx, err)
		}
		if prog != "" {
			_ = os.WriteFile(prog, []byte(fmt.Sprintf("%d %s\n", idx, scn.Name)), 0o644)
		}
		if scn.Policy != nil && scn.Policy.AllK && len(scn.Policy.Faults) > 0 {
			base := scn
			bp := *scn.Policy
			bp.Faults = nil
			bp.AllK = false
			base.Policy = &bp
			total := runOne(t, idx, -1, base, out)
			ks := pickKs(total, scn.Policy.MaxK, scn.Policy.Seed)
			for _, k := range ks {
				v := scn
				vp := *scn.Policy
				vp.AllK = false
				vp.Faults = append([]Fault(nil), scn.Policy.Faults...)
				vp.Faults[0].At = k
				v.Policy = &vp
				runOne(t, idx, k, v, out)
			}
			continue
		}
		runOne(t, idx, -1, scn, out)
	}
	if prog != "" {
		_ = os.WriteFile(prog, []byte("done\n"), 0o644)
	}
}

// pickKs returns all fault positions 0..total, or an evenly spread sample of
// at most maxK of them (always including both ends).
func pickKs(total, maxK int, seed int64) []int {
	var ks []int
	if maxK <= 0 || total+1 <= maxK {
		for k := 0; k <= total; k++ {
			ks = append(ks, k)
		}
		return ks
	}
	off := int(seed % 7)
	for i := 0; i < maxK; i++ {
		k := (i*(total+1))/maxK + off%((total+1)/maxK+1)
		if k > total {
			k = total
		}
		if len(ks) == 0 || ks[len(ks)-1] != k {
			ks = append(ks, k)
		}
	}
	return ks
}

var traceNo int

func runOne(t *testing.T, idx, k int, scn Scenario, out *os.File) (steps int) {
	var deadlock any
	no := traceNo
	traceNo++
	if side := os.Getenv("VERIF_TRACES"); side != "" {
		if f, err := os.OpenFile(side+".scn", os.O_CREATE|os.O_WRONLY|os.O_APPEND, 0o644); err == nil {
			b, _ := json.Marshal(map[string]any{"trace": no, "scn": idx, "k": k, "scenario": scn})
			f.Write(append(b, '\n'))
			f.Close()
		}
	}
	func() {
		defer func() { deadlock = recover() }()
		synctest.Test(t, func(t *testing.T) {
			log, n := RunCount(scn)
			steps = n
			bw := bufio.NewWriter(out)
			fmt.Fprintf(bw, "{\"ev\":\"reset\",\"i\":0,\"idx\":%d,\"scn\":%d,\"k\":%d}\n", no, idx, k)
			bw.Flush()
			if err := log.Write(out); err != nil {
				t.Fatal(err)
			}
		})
	}()
	if deadlock != nil {
		fmt.Fprintf(out, "{\"ev\":\"bubble-deadlock\",\"i\":0,\"idx\":%d,\"msg\":%q}\n", no, fmt.Sprint(deadlock))
	}
	return steps
}
