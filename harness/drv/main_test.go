package drv

import (
	"bufio"
	"encoding/json"
	"fmt"
	"os"
	"testing"
	"testing/synctest"

	"google.golang.org/protobuf/proto"
)

func mustMarshal(m proto.Message) []byte {
	b, err := proto.Marshal(m)
	if err != nil {
		panic(err)
	}
	return b
}

// TestScenarios runs the scenarios of the ndjson file $VERIF_SCENARIOS (one
// scenario per line), each in its own synctest bubble, and appends each trace to
// $VERIF_TRACES (ndjson; traces separated by "reset" lines). The index of the
// scenario being run is kept in $VERIF_PROGRESS so that the orchestrator can
// attribute a crash of this process.
func TestScenarios(t *testing.T) {
	in := os.Getenv("VERIF_SCENARIOS")
	if in == "" {
		t.Skip("VERIF_SCENARIOS not set")
	}
	f, err := os.Open(in)
	if err != nil {
		t.Fatal(err)
	}
	defer f.Close()
	out, err := os.OpenFile(os.Getenv("VERIF_TRACES"), os.O_CREATE|os.O_WRONLY|os.O_APPEND, 0o644)
	if err != nil {
		t.Fatal(err)
	}
	defer out.Close()
	skip := 0
	fmt.Sscanf(os.Getenv("VERIF_SKIP"), "%d", &skip)
	prog := os.Getenv("VERIF_PROGRESS")
	sc := bufio.NewScanner(f)
	sc.Buffer(make([]byte, 1<<20), 1<<28)
	idx := -1
	for sc.Scan() {
		idx++
		if idx < skip {
			continue
		}
		var scn Scenario
		if err := json.Unmarshal(sc.Bytes(), &scn); err != nil {
			t.Fatalf("scenario %d: %v", idx, err)
		}
		if prog != "" {
			_ = os.WriteFile(prog, []byte(fmt.Sprintf("%d %s\n", idx, scn.Name)), 0o644)
		}
		runOne(t, idx, scn, out)
	}
	if prog != "" {
		_ = os.WriteFile(prog, []byte("done\n"), 0o644)
	}
}

func runOne(t *testing.T, idx int, scn Scenario, out *os.File) {
	var deadlock any
	func() {
		defer func() { deadlock = recover() }()
		synctest.Test(t, func(t *testing.T) {
			log := Run(scn)
			bw := bufio.NewWriter(out)
			fmt.Fprintf(bw, "{\"ev\":\"reset\",\"i\":0,\"idx\":%d}\n", idx)
			bw.Flush()
			if err := log.Write(out); err != nil {
				t.Fatal(err)
			}
		})
	}()
	if deadlock != nil {
		fmt.Fprintf(out, "{\"ev\":\"bubble-deadlock\",\"i\":0,\"idx\":%d,\"msg\":%q}\n", idx, fmt.Sprint(deadlock))
	}
}
