package drv

import (
	"bufio"
	"context"
	"encoding/json"
	"fmt"
	"os"
	"strings"
	"sync"
	"testing"
	"testing/synctest"
	"time"

	"google.golang.org/grpc"
	"google.golang.org/grpc/metadata"
	"google.golang.org/protobuf/types/known/wrapperspb"

	"github.com/jhump/grpctunnel"
)

// TestTimeouts executes the C18 test table ($VERIF_VECTORS, written by TLC from
// spec/GrpcTimeoutGen.tla): every entry is a list of grpc-timeout header values
// (each a list of one-character strings). Each is attached, through the public
// API only, to a unary RPC over a forward tunnel; the handler records the time
// left until its context's deadline on virtual time. One "gt" event per entry
// is appended to $VERIF_TRACES.

type gtObs struct {
	hasdl bool
	until time.Duration
}

type gtSvc struct {
	mu  sync.Mutex
	obs map[string]gtObs
}

var gtDesc = grpc.ServiceDesc{
	ServiceName: "verif.GT",
	HandlerType: (*svcIface)(nil),
	Methods: []grpc.MethodDesc{{
		MethodName: "Probe",
		Handler: func(srv any, ctx context.Context, dec func(any) error, _ grpc.UnaryServerInterceptor) (any, error) {
			g := srv.(*gtSvc)
			md, _ := metadata.FromIncomingContext(ctx)
			var o gtObs
			if dl, ok := ctx.Deadline(); ok {
				o = gtObs{true, time.Until(dl)}
			}
			if id := md.Get("x-gt"); len(id) > 0 {
				g.mu.Lock()
				g.obs[id[0]] = o
				g.mu.Unlock()
			}
			_ = dec(new(wrapperspb.BytesValue))
			return &wrapperspb.BytesValue{}, nil
		},
	}},
}

func TestTimeouts(t *testing.T) {
	in := os.Getenv("VERIF_VECTORS")
	if in == "" {
		t.Skip("VERIF_VECTORS not set")
	}
	b, err := os.ReadFile(in)
	if err != nil {
		t.Fatal(err)
	}
	var vectors [][][]string
	if err := json.Unmarshal(b, &vectors); err != nil {
		t.Fatal(err)
	}
	out, err := os.OpenFile(os.Getenv("VERIF_TRACES"), os.O_CREATE|os.O_WRONLY|os.O_APPEND, 0o644)
	if err != nil {
		t.Fatal(err)
	}
	defer out.Close()
	shard, shards := 0, 1
	fmt.Sscanf(os.Getenv("VERIF_SHARD"), "%d/%d", &shard, &shards)
	bw := bufio.NewWriter(out)
	defer bw.Flush()
	const batch = 300
	var mine []int
	for i := range vectors {
		if i%shards == shard {
			mine = append(mine, i)
		}
	}
	for lo := 0; lo < len(mine); lo += batch {
		hi := min(lo+batch, len(mine))
		synctest.Test(t, func(t *testing.T) {
			svc := &gtSvc{obs: map[string]gtObs{}}
			s := NewSession(Config{Dir: "fwd", Auto: true})
			s.Log = nil
			s.handler = grpctunnel.NewTunnelServiceHandler(grpctunnel.TunnelServiceHandlerOptions{})
			s.handler.RegisterService(&gtDesc, svc)
			ctx, cancel := context.WithCancel(context.Background())
			ch, err := grpctunnel.NewChannel(stub{s}).Start(ctx)
			if err != nil {
				t.Fatal(err)
			}
			for _, i := range mine[lo:hi] {
				vals := make([]string, len(vectors[i]))
				for k, cs := range vectors[i] {
					vals[k] = strings.Join(cs, "")
				}
				md := metadata.MD{"x-gt": {fmt.Sprint(i)}, "grpc-timeout": vals}
				rctx := metadata.NewOutgoingContext(context.Background(), md)
				_ = ch.Invoke(rctx, "/verif.GT/Probe", &wrapperspb.BytesValue{}, &wrapperspb.BytesValue{})
				synctest.Wait()
				svc.mu.Lock()
				o, reached := svc.obs[fmt.Sprint(i)]
				svc.mu.Unlock()
				u := int64(o.until)
				neg := u < 0
				if neg {
					u = -u
				}
				e := map[string]any{"ev": "gt", "idx": i, "vals": vectors[i], "reached": reached, "hasdl": o.hasdl, "neg": neg,
					"h": u / int64(time.Hour), "m": (u % int64(time.Hour)) / int64(time.Minute),
					"s": (u % int64(time.Minute)) / int64(time.Second), "ns": u % int64(time.Second)}
				jb, _ := json.Marshal(e)
				bw.Write(jb)
				bw.WriteByte('\n')
			}
			ch.Close()
			cancel()
			synctest.Wait()
			time.Sleep(2562000 * time.Hour)
			synctest.Wait()
		})
	}
}
