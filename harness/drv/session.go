package drv

import (
	"context"
	"fmt"
	"math/rand"
	"runtime"
	"sort"
	"strings"
	"sync"
	"sync/atomic"
	"testing/synctest"
	"time"

	"google.golang.org/grpc"
	"google.golang.org/grpc/metadata"

	"github.com/jhump/grpctunnel"
	"github.com/jhump/grpctunnel/tunnelpb"

	"verif/harness/sim"
	"verif/harness/tr"
	"verif/harness/wire"
)

// Session runs one scenario against the real library.
type Session struct {
	Cfg Config
	Log *tr.Log

	mu       sync.Mutex
	car      *sim.Carrier
	handler  *grpctunnel.TunnelServiceHandler
	inner    *grpctunnel.TunnelServiceHandler // nested mode: serves the scenario's RPCs over the inner tunnel
	rts      *grpctunnel.ReverseTunnelServer
	inPre    atomic.Bool
	ch       grpctunnel.TunnelChannel
	tunCtx   context.Context
	tunStop  context.CancelFunc
	rpcs     map[int]*rpcState
	gates    map[string]bool
	parked   map[string]chan struct{} // "point@sid" -> release channel
	quit     chan struct{}
	quitOnce sync.Once
	baseG    int
	useSnap  bool // settle with goroutine snapshots instead of synctest.Wait
	served   bool
	nInvoked int
	bubble   string
	free     atomic.Bool       // free-running: applications run their scripts on their own, no stepping
	scripts  map[int]RPCScript // free-running: the scripts by RPC number
	rng      *rand.Rand        // free-running: delay injection at yield points
	rngMu    sync.Mutex
	sfailed  map[string]bool // "rpc/end": a send failed
	untagged []int           // caller RPCs started without any metadata (no x-rpc tag), oldest first
}

type rpcState struct {
	n     int
	shape string
	// caller side
	ctx    context.Context
	cancel context.CancelFunc
	cs     grpc.ClientStream
	hdrT   metadata.MD
	trlT   metadata.MD
	hasHT  bool
	hasTT  bool
	chT    grpctunnel.TunnelChannel
	sentC  int
	gotC   int
	cact   map[string]*actor
	// handler side
	hctx  context.Context
	hss   grpc.ServerStream
	hdec  func(any) error
	sentS int
	gotS  int
	hact  map[string]*actor
	hret  chan hresult
	hlive bool
}

type hresult struct {
	resp any
	err  error
}

type actor struct {
	end  string
	rpc  int
	name string
	cmds chan Step
	mu   sync.Mutex
	cur  *Step
}

func (a *actor) current() *Step {
	a.mu.Lock()
	defer a.mu.Unlock()
	return a.cur
}

func (a *actor) setCur(s *Step) {
	a.mu.Lock()
	a.cur = s
	a.mu.Unlock()
}

// NewSession prepares a session; it must be created inside the synctest bubble.
func NewSession(cfg Config) *Session {
	s := &Session{
		Cfg:     cfg,
		Log:     tr.New(),
		rpcs:    map[int]*rpcState{},
		gates:   map[string]bool{},
		parked:  map[string]chan struct{}{},
		quit:    make(chan struct{}),
		sfailed: map[string]bool{},
	}
	for _, g := range cfg.Gates {
		s.gates[g] = true
	}
	// A goroutine held at a gate may hold one of the library's mutexes (the
	// stream-creation lock, the send mutex): others then wait on a mutex, which
	// synctest does not treat as idle, so gated runs settle by snapshots.
	s.useSnap = cfg.Cap > 0 || len(cfg.Gates) > 0
	return s
}

func (s *Session) emit(ev string, f tr.E) {
	if s.Log == nil {
		return
	}
	if f == nil {
		f = tr.E{}
	}
	s.Log.Emit(ev, f)
}

func (s *Session) sendFailed(rpc int, end string) bool {
	if s.Cfg.KeepSending {
		return false
	}
	s.mu.Lock()
	defer s.mu.Unlock()
	return s.sfailed[fmt.Sprintf("%d/%s", rpc, end)]
}

func (s *Session) markSendFailed(rpc int, end string) {
	s.mu.Lock()
	s.sfailed[fmt.Sprintf("%d/%s", rpc, end)] = true
	s.mu.Unlock()
}

// ---- hooks -------------------------------------------------------------------

// The library's hook variables are plain globals: they are set once per process (before any goroutine of the
// library exists) to dispatchers that route to the current session through an atomic pointer, so that a late
// goroutine of a finished tunnel never races with the next session being set up.
var (
	curSession atomic.Pointer[Session]
	hooksOnce  sync.Once
)

func (s *Session) installHooks() {
	hooksOnce.Do(func() {
		grpctunnel.VerifYieldHook = func(point string, id int64) {
			if cs := curSession.Load(); cs != nil {
				cs.yieldHook(point, id)
			}
		}
		grpctunnel.VerifEventHook = func(point string, id, a, b int64) {
			if cs := curSession.Load(); cs != nil {
				cs.eventHook(point, id, a, b)
			}
		}
	})
	if s.Cfg.Hooks == "off" && len(s.gates) == 0 {
		// no instrumentation at all: the hooks take locks of the harness (event log, scheduler state), which would
		// order the library's goroutines for the race detector and hide races between them and the application
		curSession.Store(nil)
		return
	}
	curSession.Store(s)
}

func uninstallHooks() {
	curSession.Store(nil)
}

func (s *Session) logsHook(point string) bool {
	switch s.Cfg.Hooks {
	case "none":
		return false
	case "all":
		return true
	}
	return !strings.HasPrefix(point, "snd.") && !strings.HasPrefix(point, "upd.") && !strings.HasSuffix(point, ".tx.lock")
}

func (s *Session) eventHook(point string, id, a, b int64) {
	if s.logsHook(point) {
		s.emit("hook", tr.E{"point": point, "sid": id, "a": a, "b": b})
	}
}

func (s *Session) yieldHook(point string, id int64) {
	key := fmt.Sprintf("%s@%d", point, id)
	if s.gates[point] || s.gates[key] {
		select {
		case <-s.quit:
			return
		default:
		}
		ch := make(chan struct{})
		s.mu.Lock()
		if _, dup := s.parked[key]; dup {
			// a second goroutine at the same point: do not hold it
			s.mu.Unlock()
			s.emit("hook", tr.E{"point": point, "sid": id, "a": 0, "b": 0})
			return
		}
		s.parked[key] = ch
		s.mu.Unlock()
		s.emit("park", tr.E{"point": point, "sid": id})
		select {
		case <-ch:
		case <-s.quit:
		}
		s.emit("unpark", tr.E{"point": point, "sid": id})
		return
	}
	if s.free.Load() {
		// randomised delay injection: widen race windows
		s.rngMu.Lock()
		x := s.rng.Intn(100)
		s.rngMu.Unlock()
		// (no sleeping: a goroutine may be inside one of the library's critical sections here, and
		// a bubble whose other goroutines wait on that mutex can never advance its clock)
		switch {
		case x < 25:
			runtime.Gosched()
		case x < 35:
			for k := 0; k < x; k++ {
				runtime.Gosched()
			}
		}
		return
	}
	if s.logsHook(point) {
		s.emit("hook", tr.E{"point": point, "sid": id, "a": 0, "b": 0})
	}
}

// carYield is the carrier's yield point: only gated points do anything.
func (s *Session) carYield(point string, id int64) {
	if s.gates[point] || s.gates[fmt.Sprintf("%s@%d", point, id)] {
		s.yieldHook(point, id)
	}
}

func (s *Session) release(point string, id int64) bool {
	key := fmt.Sprintf("%s@%d", point, id)
	s.mu.Lock()
	ch, ok := s.parked[key]
	delete(s.parked, key)
	s.mu.Unlock()
	if ok {
		close(ch)
	}
	return ok
}

func (s *Session) parkedList() [][]any {
	s.mu.Lock()
	defer s.mu.Unlock()
	keys := make([]string, 0, len(s.parked))
	for k := range s.parked {
		keys = append(keys, k)
	}
	sort.Strings(keys)
	out := [][]any{}
	for _, k := range keys {
		i := strings.LastIndexByte(k, '@')
		var id int64
		fmt.Sscanf(k[i+1:], "%d", &id)
		out = append(out, []any{k[:i], id})
	}
	return out
}

// ---- settle --------------------------------------------------------------------

// settle waits until every other goroutine of the bubble is blocked.
func (s *Session) settle() {
	if !s.useSnap {
		synctest.Wait()
		return
	}
	if s.bubble == "" {
		s.bubble = myBubble()
		if s.bubble == "" {
			panic("settle: cannot identify the bubble of the driver goroutine")
		}
	}
	me := s.bubble
	stable := 0
	last := -1
	for i := 0; ; i++ {
		for k := 0; k < 8; k++ {
			runtime.Gosched()
		}
		seq := s.Log.Seq()
		ok := true
		for _, g := range Snapshot() {
			if g.Bubble != me || g.State == "running" && isSelf(g) {
				continue
			}
			if !g.Blocked() {
				ok = false
				break
			}
		}
		if ok && seq == last {
			stable++
			// (six consecutive identical observations: with three, one run in ~30 000 on a heavily loaded
			// machine still reported a quiescent point too early)
			if stable >= 6 {
				return
			}
		} else {
			stable = 0
		}
		last = seq
		if i > 200000 {
			panic("settle: no quiescence")
		}
	}
}

func isSelf(g G) bool {
	for _, f := range g.Funcs {
		if strings.HasSuffix(f, "drv.Snapshot") {
			return true
		}
	}
	return false
}

func myBubble() string {
	for _, g := range Snapshot() {
		if isSelf(g) {
			return g.Bubble
		}
	}
	return ""
}

// ---- tunnel set-up ----------------------------------------------------------------

type stub struct{ s *Session }

// intercept plays a client stream interceptor on the tunnel-opening call: it adds a metadata key to
// the context the stream is created with (what the wire carries and what stream.Context() returns).
func (s *Session) intercept(ctx context.Context) context.Context {
	if s.Cfg.Icept {
		return metadata.AppendToOutgoingContext(ctx, "x-intercepted", "by-stream-interceptor")
	}
	return ctx
}

// openInner starts the inner (forward) tunnel over the outer channel.
func (s *Session) openInner(outer grpctunnel.TunnelChannel) (grpctunnel.TunnelChannel, error) {
	ctx := context.Background()
	if s.Cfg.NestedMD != nil {
		ctx = metadata.NewOutgoingContext(ctx, toMD(s.Cfg.NestedMD))
	}
	ctx = context.WithValue(ctx, ctxValKey{}, "iv-client")
	ctx, cancel := context.WithCancel(ctx)
	go func() {
		<-s.quit
		cancel()
	}()
	return grpctunnel.NewChannel(tunnelpb.NewTunnelServiceClient(outer)).Start(ctx)
}

func (s *Session) openingMD() metadata.MD {
	if s.Cfg.Nested {
		// what opened the tunnel that carries the scenario's RPCs: the inner one
		return toMD(s.Cfg.NestedMD)
	}
	md := toMD(s.Cfg.TunnelMD)
	if s.Cfg.Icept && s.Cfg.RawCli == "" && s.Cfg.RawSrv == "" {
		if md == nil {
			md = metadata.MD{}
		}
		md = md.Copy()
		md.Append("x-intercepted", "by-stream-interceptor")
	}
	return md
}

func (st stub) OpenTunnel(ctx context.Context, opts ...grpc.CallOption) (grpc.BidiStreamingClient[tunnelpb.ClientToServer, tunnelpb.ServerToClient], error) {
	s := st.s
	ctx = s.intercept(ctx)
	car := sim.New(ctx, sim.Options{T: 1, Cap: s.Cfg.Cap, Auto: s.Cfg.Auto, Log: s.Log, Yield: s.carYield, ServerCtx: withInterceptorValue})
	s.setCarrier(car)
	if s.Cfg.RawSrv == "" {
		se := &sim.ServerEnd[tunnelpb.ClientToServer, tunnelpb.ServerToClient, *tunnelpb.ClientToServer, *tunnelpb.ServerToClient]{C: car, Desc: wire.Desc}
		go func() {
			err := s.handler.Service().OpenTunnel(se)
			car.HandlerReturned(err)
			s.emit("tun", errFields(tr.E{"what": "serveret", "started": true}, err))
		}()
	} else {
		s.rawServerHeader(car)
	}
	return &sim.ClientEnd[tunnelpb.ClientToServer, tunnelpb.ServerToClient, *tunnelpb.ClientToServer, *tunnelpb.ServerToClient]{C: car, Desc: wire.Desc}, nil
}

func (st stub) OpenReverseTunnel(ctx context.Context, opts ...grpc.CallOption) (grpc.BidiStreamingClient[tunnelpb.ServerToClient, tunnelpb.ClientToServer], error) {
	s := st.s
	ctx = s.intercept(ctx)
	car := sim.New(ctx, sim.Options{T: 1, Reverse: true, Cap: s.Cfg.Cap, Auto: s.Cfg.Auto, Log: s.Log, Yield: s.carYield, ServerCtx: withInterceptorValue})
	s.setCarrier(car)
	if s.Cfg.RawCli == "" {
		se := &sim.ServerEnd[tunnelpb.ServerToClient, tunnelpb.ClientToServer, *tunnelpb.ServerToClient, *tunnelpb.ClientToServer]{C: car, Desc: wire.Desc}
		go func() {
			err := s.handler.Service().OpenReverseTunnel(se)
			car.HandlerReturned(err)
			s.emit("tun", errFields(tr.E{"what": "revhandlerret"}, err))
		}()
	} else {
		s.rawServerHeader(car)
	}
	return &sim.ClientEnd[tunnelpb.ServerToClient, tunnelpb.ClientToServer, *tunnelpb.ServerToClient, *tunnelpb.ClientToServer]{C: car, Desc: wire.Desc}, nil
}

// preStub opens the carriers of the preliminary tunnel (unlogged, self-delivering).
type preStub struct{ s *Session }

func (st preStub) OpenTunnel(ctx context.Context, opts ...grpc.CallOption) (grpc.BidiStreamingClient[tunnelpb.ClientToServer, tunnelpb.ServerToClient], error) {
	car := sim.New(ctx, sim.Options{T: 9, Auto: true})
	se := &sim.ServerEnd[tunnelpb.ClientToServer, tunnelpb.ServerToClient, *tunnelpb.ClientToServer, *tunnelpb.ServerToClient]{C: car, Desc: wire.Desc}
	go func() { car.HandlerReturned(st.s.handler.Service().OpenTunnel(se)) }()
	return &sim.ClientEnd[tunnelpb.ClientToServer, tunnelpb.ServerToClient, *tunnelpb.ClientToServer, *tunnelpb.ServerToClient]{C: car, Desc: wire.Desc}, nil
}

func (st preStub) OpenReverseTunnel(ctx context.Context, opts ...grpc.CallOption) (grpc.BidiStreamingClient[tunnelpb.ServerToClient, tunnelpb.ClientToServer], error) {
	car := sim.New(ctx, sim.Options{T: 9, Reverse: true, Auto: true})
	se := &sim.ServerEnd[tunnelpb.ServerToClient, tunnelpb.ClientToServer, *tunnelpb.ServerToClient, *tunnelpb.ClientToServer]{C: car, Desc: wire.Desc}
	go func() { car.HandlerReturned(st.s.handler.Service().OpenReverseTunnel(se)) }()
	return &sim.ClientEnd[tunnelpb.ServerToClient, tunnelpb.ClientToServer, *tunnelpb.ServerToClient, *tunnelpb.ClientToServer]{C: car, Desc: wire.Desc}, nil
}

// preTunnel: before the tunnel of this scenario, ANOTHER tunnel is opened through the same
// TunnelServiceHandler by a peer that negotiates differently (no flow control), used for nothing, and
// ended; it is not recorded.  What one tunnel negotiated must not carry over to the next (the formulas of
// the scenario's own tunnel judge that).
func (s *Session) preTunnel() {
	prev := curSession.Load()
	curSession.Store(nil)
	s.inPre.Store(true)
	ctx, cancel := context.WithCancel(context.Background())
	if s.Cfg.Dir == "fwd" {
		ch, err := grpctunnel.NewChannel(preStub{s}, grpctunnel.WithDisableFlowControl()).Start(ctx)
		time.Sleep(time.Millisecond)
		if err == nil {
			ch.Close()
			<-ch.Done()
		}
	} else {
		rts := grpctunnel.NewReverseTunnelServer(preStub{s}, grpctunnel.WithDisableFlowControl())
		done := make(chan struct{})
		go func() { _, _ = rts.Serve(ctx); close(done) }()
		time.Sleep(time.Millisecond) // (virtual time: everything has settled when it returns)
		rts.Stop()
		<-done
	}
	cancel()
	time.Sleep(time.Millisecond)
	s.inPre.Store(false)
	curSession.Store(prev)
}

// rawServerHeader answers the opening call's response headers on behalf of a raw
// network server.
func (s *Session) rawServerHeader(car *sim.Carrier) {
	mode := s.Cfg.RawSrv
	if s.Cfg.Dir == "rev" {
		mode = s.Cfg.RawCli
	}
	var md metadata.MD
	if mode == "neg" {
		md = metadata.Pairs("grpctunnel-negotiate", "on")
	}
	se := &sim.ServerEnd[tunnelpb.ClientToServer, tunnelpb.ServerToClient, *tunnelpb.ClientToServer, *tunnelpb.ServerToClient]{C: car}
	_ = se.SendHeader(md)
}

func (s *Session) setCarrier(c *sim.Carrier) {
	s.mu.Lock()
	s.car = c
	s.mu.Unlock()
}

func (s *Session) carrier() *sim.Carrier {
	s.mu.Lock()
	defer s.mu.Unlock()
	return s.car
}

func (s *Session) setChannel(ch grpctunnel.TunnelChannel) {
	s.mu.Lock()
	s.ch = ch
	s.mu.Unlock()
	go func() {
		select {
		case <-ch.Done():
			s.emit("tun", errFields(tr.E{"what": "chdone"}, ch.Err()))
		case <-s.quit:
		}
	}()
}

func (s *Session) channel() grpctunnel.TunnelChannel {
	s.mu.Lock()
	defer s.mu.Unlock()
	return s.ch
}

// open starts the tunnel (asynchronously: Start/Serve block until the settings
// exchange is complete).
func (s *Session) open() {
	cfg := s.Cfg
	ctx := context.Background()
	if cfg.TunnelMD != nil {
		ctx = metadata.NewOutgoingContext(ctx, toMD(cfg.TunnelMD))
	}
	ctx = context.WithValue(ctx, ctxValKey{}, "iv-client")
	s.tunCtx, s.tunStop = context.WithCancel(ctx)
	hopts := grpctunnel.TunnelServiceHandlerOptions{
		OnReverseTunnelOpen: func(ch grpctunnel.TunnelChannel) {
			if s.inPre.Load() {
				return
			}
			s.emit("reg", tr.E{"what": "open", "ch": grpctunnel.VerifChannelID(ch)})
			if s.Cfg.Nested {
				// the inner tunnel is started over the reverse (outer) channel; Start blocks until the
				// settings exchange is done, so not on the handler's goroutine
				go func() {
					in, err := s.openInner(ch)
					if err != nil {
						s.emit("tun", errFields(tr.E{"what": "startfail"}, err))
						return
					}
					s.setChannel(in)
					s.emit("tun", tr.E{"what": "started", "ch": grpctunnel.VerifChannelID(in)})
				}()
				return
			}
			s.setChannel(ch)
		},
		OnReverseTunnelClose: func(ch grpctunnel.TunnelChannel) {
			if s.inPre.Load() {
				return
			}
			s.emit("reg", tr.E{"what": "close", "ch": grpctunnel.VerifChannelID(ch)})
		},
	}
	var copts []grpctunnel.TunnelOption
	if cfg.Dir == "fwd" {
		hopts.DisableFlowControl = cfg.SrvNoFC
		if cfg.CliNoFC {
			copts = append(copts, grpctunnel.WithDisableFlowControl())
		}
	} else {
		hopts.DisableFlowControl = cfg.CliNoFC
		if cfg.SrvNoFC {
			copts = append(copts, grpctunnel.WithDisableFlowControl())
		}
	}
	s.handler = grpctunnel.NewTunnelServiceHandler(hopts)
	if cfg.PreTunnel != "" {
		s.preTunnel()
	}
	s.emit("open", tr.E{"dir": cfg.Dir, "cliNoFC": cfg.CliNoFC, "srvNoFC": cfg.SrvNoFC,
		"rawCli": cfg.RawCli, "rawSrv": cfg.RawSrv, "cap": cfg.Cap, "auto": cfg.Auto,
		"tmd": wire.MD(s.openingMD())})
	switch cfg.Dir {
	case "fwd":
		if cfg.Nested {
			s.inner = grpctunnel.NewTunnelServiceHandler(grpctunnel.TunnelServiceHandlerOptions{})
			s.inner.RegisterService(&serviceDesc, &service{s})
			tunnelpb.RegisterTunnelServiceServer(s.handler, s.inner.Service())
		} else {
			s.handler.RegisterService(&serviceDesc, &service{s})
		}
		if cfg.RawCli != "" {
			s.openRawNetClient()
			return
		}
		go func() {
			ch, err := grpctunnel.NewChannel(stub{s}, copts...).Start(s.tunCtx)
			if err != nil {
				s.emit("tun", errFields(tr.E{"what": "startfail"}, err))
				return
			}
			if cfg.Nested {
				ch, err = s.openInner(ch)
				if err != nil {
					s.emit("tun", errFields(tr.E{"what": "startfail"}, err))
					return
				}
			}
			s.setChannel(ch)
			s.emit("tun", tr.E{"what": "started", "ch": grpctunnel.VerifChannelID(ch)})
		}()
	case "rev":
		if cfg.RawSrv != "" {
			s.openRawNetClient()
			return
		}
		s.rts = grpctunnel.NewReverseTunnelServer(stub{s}, copts...)
		if cfg.Nested {
			s.inner = grpctunnel.NewTunnelServiceHandler(grpctunnel.TunnelServiceHandlerOptions{})
			s.inner.RegisterService(&serviceDesc, &service{s})
			tunnelpb.RegisterTunnelServiceServer(s.rts, s.inner.Service())
		} else {
			s.rts.RegisterService(&serviceDesc, &service{s})
		}
		go func() {
			started, err := s.rts.Serve(s.tunCtx)
			s.emit("tun", errFields(tr.E{"what": "serveret", "started": started}, err))
		}()
	}
}

// openRawNetClient: the network client is played by the driver; the real
// network server handler runs against it.
func (s *Session) openRawNetClient() {
	mode := s.Cfg.RawCli
	if s.Cfg.Dir == "rev" {
		mode = s.Cfg.RawSrv
	}
	ctx := s.tunCtx
	switch mode {
	case "neg":
		ctx = metadata.AppendToOutgoingContext(ctx, "grpctunnel-negotiate", "on")
	case "off", "ON", "empty":
		// the header is present but does not say "on": this peer does not negotiate
		ctx = metadata.AppendToOutgoingContext(ctx, "grpctunnel-negotiate", map[string]string{"off": "off", "ON": "ON", "empty": ""}[mode])
	}
	if s.Cfg.Dir == "fwd" {
		car := sim.New(ctx, sim.Options{T: 1, Cap: s.Cfg.Cap, Auto: s.Cfg.Auto, Log: s.Log, Yield: s.carYield, ServerCtx: withInterceptorValue})
		s.setCarrier(car)
		se := &sim.ServerEnd[tunnelpb.ClientToServer, tunnelpb.ServerToClient, *tunnelpb.ClientToServer, *tunnelpb.ServerToClient]{C: car, Desc: wire.Desc}
		go func() {
			err := s.handler.Service().OpenTunnel(se)
			car.HandlerReturned(err)
			s.emit("tun", errFields(tr.E{"what": "serveret", "started": true}, err))
		}()
		return
	}
	car := sim.New(ctx, sim.Options{T: 1, Reverse: true, Cap: s.Cfg.Cap, Auto: s.Cfg.Auto, Log: s.Log, Yield: s.carYield, ServerCtx: withInterceptorValue})
	s.setCarrier(car)
	se := &sim.ServerEnd[tunnelpb.ServerToClient, tunnelpb.ClientToServer, *tunnelpb.ServerToClient, *tunnelpb.ClientToServer]{C: car, Desc: wire.Desc}
	go func() {
		err := s.handler.Service().OpenReverseTunnel(se)
		car.HandlerReturned(err)
		s.emit("tun", errFields(tr.E{"what": "revhandlerret"}, err))
	}()
}

type ctxValKey struct{}

// withInterceptorValue plays a server interceptor storing a value in the context.
func withInterceptorValue(ctx context.Context) context.Context {
	return context.WithValue(ctx, ctxValKey{}, "iv-server")
}

// mutate changes metadata returned by an accessor in every way an application
// could: a new key, and an element of a value slice overwritten in place.
func mutate(md metadata.MD) {
	if md == nil {
		return
	}
	for k, vs := range md {
		if len(vs) > 0 {
			vs[0] = "MUTATED"
			md[k] = append(vs, "MUTATED-TOO")
		}
	}
	md["x-mutated"] = []string{"1"}
}

// ---- quiescent-point observation ----------------------------------------------------

func (s *Session) quiesce(final bool) {
	f := tr.E{}
	blocked := [][]any{}
	hs := [][]any{}
	s.mu.Lock()
	ids := make([]int, 0, len(s.rpcs))
	for n := range s.rpcs {
		ids = append(ids, n)
	}
	sort.Ints(ids)
	for _, n := range ids {
		r := s.rpcs[n]
		for _, end := range []map[string]*actor{r.cact, r.hact} {
			for _, name := range []string{"m", "a"} {
				if a := end[name]; a != nil {
					if c := a.current(); c != nil {
						blocked = append(blocked, []any{a.end, n, name, c.Op})
					}
				}
			}
		}
		if r.hlive {
			done := 0
			if r.hctx.Err() != nil {
				done = 1
			}
			hs = append(hs, []any{n, done})
		}
	}
	ch := s.ch
	car := s.car
	s.mu.Unlock()
	f["blocked"] = blocked
	f["h"] = hs
	f["parked"] = s.parkedList()
	f["ctab"] = -1
	f["chdone"] = false
	if ch != nil {
		f["ctab"] = grpctunnel.VerifStreamTableSize(ch)
		select {
		case <-ch.Done():
			f["chdone"] = true
			// Err() as it reads now that everything has settled (the watcher's read at the moment Done() fired is
			// in the "chdone" event)
			if ch.Err() == nil {
				f["cherr"] = "ok"
			} else {
				f["cherr"] = "err"
			}
		default:
		}
	}
	tabs := grpctunnel.VerifServerTables()
	f["nsrv"] = len(tabs)
	st := 0
	for _, t := range tabs {
		st += t.Streams
	}
	f["stab"] = st
	qc, qs := 0, 0
	if car != nil {
		qc, _ = car.Pending("c2s")
		qs, _ = car.Pending("s2c")
	}
	f["qc2s"] = qc
	f["qs2c"] = qs
	f["final"] = final
	f["g"] = -1
	if s.Cfg.Snap || final {
		me := myBubble()
		var lib []G
		for _, g := range Snapshot() {
			if g.Bubble == me && g.LibRooted() {
				lib = append(lib, g)
			}
		}
		f["g"] = len(lib)
		f["groots"] = append([]string{}, shortRoots(lib)...)
	}
	s.emit("q", f)
}

// ---- teardown -------------------------------------------------------------------

func (s *Session) teardown() {
	s.emit("step", tr.E{"do": "teardown"})
	s.mu.Lock()
	for _, r := range s.rpcs {
		if r.cancel != nil {
			r.cancel()
		}
	}
	s.mu.Unlock()
	if s.tunStop != nil {
		s.tunStop()
	}
	if c := s.carrier(); c != nil {
		c.Fail()
	}
	s.quitOnce.Do(func() { close(s.quit) })
	s.mu.Lock()
	for k, ch := range s.parked {
		close(ch)
		delete(s.parked, k)
	}
	s.mu.Unlock()
	if s.rts != nil {
		go s.rts.Stop()
	}
	s.settle()
	// let every pending timer fire (context deadlines of handlers)
	time.Sleep(1000 * time.Hour)
	s.settle()
	s.quiesce(true)
	if c := s.carrier(); c != nil {
		c.Finished()
	}
}
