// Package tr is the event log of the harness: one JSON object per line, totally
// ordered by a sequence number assigned under the log's lock.
package tr

import (
	"bufio"
	"encoding/json"
	"io"
	"sort"
	"strconv"
	"sync"
)

// E is one event; "i" and "ev" are added by Log.Emit.
type E map[string]any

// Log collects events. It is safe for concurrent use.
type Log struct {
	mu     sync.Mutex
	seq    int
	events []E
	// Tap, if set, is called with every event under the log's lock.
	Tap func(E)
}

func New() *Log { return &Log{} }

// SetTap installs (or removes) the tap.
func (l *Log) SetTap(f func(E)) {
	l.mu.Lock()
	l.Tap = f
	l.mu.Unlock()
}

// Emit appends an event and returns its sequence number.
func (l *Log) Emit(ev string, fields E) int {
	l.mu.Lock()
	defer l.mu.Unlock()
	l.seq++
	e := E{"i": l.seq, "ev": ev}
	for k, v := range fields {
		e[k] = v
	}
	l.events = append(l.events, e)
	if l.Tap != nil {
		l.Tap(e)
	}
	return l.seq
}

// Seq returns the number of events emitted so far.
func (l *Log) Seq() int {
	l.mu.Lock()
	defer l.mu.Unlock()
	return l.seq
}

// Events returns a copy of the events so far.
func (l *Log) Events() []E {
	l.mu.Lock()
	defer l.mu.Unlock()
	return append([]E(nil), l.events...)
}

// Write writes the log as ndjson with sorted keys ("ev" first for readability).
func (l *Log) Write(w io.Writer) error {
	bw := bufio.NewWriter(w)
	for _, e := range l.Events() {
		if err := writeEvent(bw, e); err != nil {
			return err
		}
	}
	return bw.Flush()
}

func writeEvent(bw *bufio.Writer, e E) error {
	keys := make([]string, 0, len(e))
	for k := range e {
		if k != "ev" && k != "i" {
			keys = append(keys, k)
		}
	}
	sort.Strings(keys)
	keys = append([]string{"ev", "i"}, keys...)
	bw.WriteByte('{')
	for n, k := range keys {
		if n > 0 {
			bw.WriteByte(',')
		}
		bw.WriteString(strconv.Quote(k))
		bw.WriteByte(':')
		b, err := json.Marshal(e[k])
		if err != nil {
			return err
		}
		bw.Write(b)
	}
	bw.WriteString("}\n")
	return nil
}
