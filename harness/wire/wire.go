// Package wire projects tunnel frames to the abstract records used in traces
// (and back, for frames injected by raw peers).
package wire

import (
	"crypto/sha256"
	"encoding/hex"
	"fmt"
	"sort"
	"unicode/utf8"

	spb "google.golang.org/genproto/googleapis/rpc/status"
	"google.golang.org/grpc/metadata"
	"google.golang.org/protobuf/proto"
	"google.golang.org/protobuf/types/known/anypb"
	"google.golang.org/protobuf/types/known/emptypb"

	"github.com/jhump/grpctunnel/tunnelpb"

	"verif/harness/tr"
)

// Val renders one metadata value or status message injectively as valid UTF-8.
func Val(s string) string {
	if utf8.ValidString(s) && (len(s) < 2 || s[:2] != "0x") {
		return s
	}
	return "0x" + hex.EncodeToString([]byte(s))
}

// MD renders metadata as a JSON object key -> list of values, plus the sentinel
// key "_" so that the object is never empty (nil and empty metadata are the
// same thing to a gRPC application).
func MD(md metadata.MD) map[string][]string {
	out := map[string][]string{"_": {}}
	for k, vs := range md {
		if len(vs) == 0 {
			continue
		}
		c := make([]string, len(vs))
		for i, v := range vs {
			c[i] = Val(v)
		}
		out[k] = c
	}
	return out
}

func pbMD(md *tunnelpb.Metadata) map[string][]string {
	out := map[string][]string{"_": {}}
	if md == nil {
		return out
	}
	for k, vs := range md.Md {
		if vs == nil || len(vs.Val) == 0 {
			continue
		}
		c := make([]string, len(vs.Val))
		for i, v := range vs.Val {
			c[i] = Val(v)
		}
		out[k] = c
	}
	return out
}

// Details renders status details as "count:hash".
func Details(ds []*anypb.Any) string {
	if len(ds) == 0 {
		return "0"
	}
	h := sha256.New()
	for _, d := range ds {
		b, _ := proto.MarshalOptions{Deterministic: true}.Marshal(d)
		fmt.Fprintf(h, "%d:", len(b))
		h.Write(b)
	}
	return fmt.Sprintf("%d:%s", len(ds), hex.EncodeToString(h.Sum(nil))[:12])
}

// RPCTag extracts the harness's RPC number from request metadata (0 if absent).
func RPCTag(md map[string][]string) int {
	vs := md["x-rpc"]
	if len(vs) == 0 {
		return 0
	}
	n := 0
	fmt.Sscanf(vs[0], "%d", &n)
	return n
}

// MethodClass classifies a method name against the scripted service:
// "ok", "unknown" (well-formed, not registered), "malformed" (no service/method
// separator) or "empty".
func MethodClass(name string) string {
	if name == "" {
		return "empty"
	}
	if name[0] == '/' {
		name = name[1:]
	}
	i := -1
	for k := 0; k < len(name); k++ {
		if name[k] == '/' {
			i = k
			break
		}
	}
	if i < 0 {
		return "malformed"
	}
	if name[:i] != "verif.Svc" {
		return "unknown"
	}
	switch name[i+1:] {
	case "Unary", "CStream", "SStream", "Bidi":
		return "ok"
	}
	return "unknown"
}

// MethodShape is the call shape of a method of the scripted service ("" if unknown).
func MethodShape(name string) string {
	if MethodClass(name) != "ok" {
		return ""
	}
	for i := len(name) - 1; i >= 0; i-- {
		if name[i] == '/' {
			switch name[i+1:] {
			case "Unary":
				return "unary"
			case "CStream":
				return "cstream"
			case "SStream":
				return "sstream"
			case "Bidi":
				return "bidi"
			}
		}
	}
	return ""
}

// Desc describes a frame for the event log.
func Desc(m proto.Message) tr.E {
	switch f := m.(type) {
	case *tunnelpb.ClientToServer:
		e := tr.E{"sid": f.StreamId}
		switch fr := f.Frame.(type) {
		case *tunnelpb.ClientToServer_NewStream:
			md := pbMD(fr.NewStream.RequestHeaders)
			e["kind"] = "new"
			e["method"] = Val(fr.NewStream.MethodName)
			e["mclass"] = MethodClass(fr.NewStream.MethodName)
			e["mshape"] = MethodShape(fr.NewStream.MethodName)
			e["rev"] = int(fr.NewStream.ProtocolRevision)
			e["win"] = int64(fr.NewStream.InitialWindowSize)
			e["md"] = md
			e["rpc"] = RPCTag(md)
		case *tunnelpb.ClientToServer_RequestMessage:
			e["kind"] = "msg"
			e["size"] = int64(fr.RequestMessage.Size)
			e["len"] = len(fr.RequestMessage.Data)
		case *tunnelpb.ClientToServer_MoreRequestData:
			e["kind"] = "more"
			e["len"] = len(fr.MoreRequestData)
		case *tunnelpb.ClientToServer_HalfClose:
			e["kind"] = "half"
		case *tunnelpb.ClientToServer_Cancel:
			e["kind"] = "cancel"
		case *tunnelpb.ClientToServer_WindowUpdate:
			e["kind"] = "wu"
			e["len"] = int64(fr.WindowUpdate)
		default:
			e["kind"] = "junk"
		}
		return e
	case *tunnelpb.ServerToClient:
		e := tr.E{"sid": f.StreamId}
		switch fr := f.Frame.(type) {
		case *tunnelpb.ServerToClient_Settings:
			e["kind"] = "settings"
			e["win"] = int64(fr.Settings.InitialWindowSize)
			revs := make([]int, len(fr.Settings.SupportedProtocolRevisions))
			for i, r := range fr.Settings.SupportedProtocolRevisions {
				revs[i] = int(r)
			}
			e["revs"] = revs
		case *tunnelpb.ServerToClient_ResponseHeaders:
			e["kind"] = "hdr"
			e["md"] = pbMD(fr.ResponseHeaders)
		case *tunnelpb.ServerToClient_ResponseMessage:
			e["kind"] = "msg"
			e["size"] = int64(fr.ResponseMessage.Size)
			e["len"] = len(fr.ResponseMessage.Data)
		case *tunnelpb.ServerToClient_MoreResponseData:
			e["kind"] = "more"
			e["len"] = len(fr.MoreResponseData)
		case *tunnelpb.ServerToClient_CloseStream:
			e["kind"] = "close"
			st := fr.CloseStream.Status
			e["code"] = int(st.GetCode())
			e["msg"] = Val(st.GetMessage())
			e["det"] = Details(st.GetDetails())
			e["md"] = pbMD(fr.CloseStream.ResponseTrailers)
		case *tunnelpb.ServerToClient_WindowUpdate:
			e["kind"] = "wu"
			e["len"] = int64(fr.WindowUpdate)
		default:
			e["kind"] = "junk"
		}
		return e
	}
	return tr.E{"kind": "unknown"}
}

// Raw describes a frame to be injected by a raw peer.
type Raw struct {
	Sid    int64               `json:"sid"`
	Kind   string              `json:"kind"`
	Size   int64               `json:"size,omitempty"`
	Len    int64               `json:"len,omitempty"`
	Method string              `json:"method,omitempty"`
	Rev    int                 `json:"rev,omitempty"`
	Win    int64               `json:"win,omitempty"`
	Revs   []int               `json:"revs,omitempty"`
	Code   int                 `json:"code,omitempty"`
	Msg    string              `json:"msg,omitempty"`
	MD     map[string][]string `json:"md,omitempty"`
	// Fill: payload generator tag: data bytes of frame are taken from
	// Payload(Rpc, Side, Idx, Size)[Off:Off+Len] when Rpc > 0, else zeros.
	Rpc  int    `json:"rpc,omitempty"`
	Side string `json:"side,omitempty"`
	Idx  int    `json:"idx,omitempty"`
	Off  int64  `json:"off,omitempty"`
}

func toPbMD(md map[string][]string) *tunnelpb.Metadata {
	out := &tunnelpb.Metadata{Md: map[string]*tunnelpb.Metadata_Values{}}
	keys := make([]string, 0, len(md))
	for k := range md {
		keys = append(keys, k)
	}
	sort.Strings(keys)
	for _, k := range keys {
		if k == "_" {
			continue
		}
		out.Md[k] = &tunnelpb.Metadata_Values{Val: md[k]}
	}
	return out
}

// C2S builds a client-to-server frame from r; data is the payload slice for
// message frames.
func (r Raw) C2S(data []byte) *tunnelpb.ClientToServer {
	f := &tunnelpb.ClientToServer{StreamId: r.Sid}
	switch r.Kind {
	case "new":
		f.Frame = &tunnelpb.ClientToServer_NewStream{NewStream: &tunnelpb.NewStream{
			MethodName:        r.Method,
			RequestHeaders:    toPbMD(r.MD),
			ProtocolRevision:  tunnelpb.ProtocolRevision(r.Rev),
			InitialWindowSize: uint32(r.Win),
		}}
	case "msg":
		f.Frame = &tunnelpb.ClientToServer_RequestMessage{RequestMessage: &tunnelpb.MessageData{Size: uint32(r.Size), Data: data}}
	case "more":
		f.Frame = &tunnelpb.ClientToServer_MoreRequestData{MoreRequestData: data}
	case "half":
		f.Frame = &tunnelpb.ClientToServer_HalfClose{HalfClose: &emptypb.Empty{}}
	case "cancel":
		f.Frame = &tunnelpb.ClientToServer_Cancel{Cancel: &emptypb.Empty{}}
	case "wu":
		f.Frame = &tunnelpb.ClientToServer_WindowUpdate{WindowUpdate: uint32(r.Len)}
	case "junk":
		// no frame set
	}
	return f
}

// S2C builds a server-to-client frame from r.
func (r Raw) S2C(data []byte) *tunnelpb.ServerToClient {
	f := &tunnelpb.ServerToClient{StreamId: r.Sid}
	switch r.Kind {
	case "settings":
		revs := make([]tunnelpb.ProtocolRevision, len(r.Revs))
		for i, v := range r.Revs {
			revs[i] = tunnelpb.ProtocolRevision(v)
		}
		f.Frame = &tunnelpb.ServerToClient_Settings{Settings: &tunnelpb.Settings{
			InitialWindowSize: uint32(r.Win), SupportedProtocolRevisions: revs}}
	case "hdr":
		f.Frame = &tunnelpb.ServerToClient_ResponseHeaders{ResponseHeaders: toPbMD(r.MD)}
	case "msg":
		f.Frame = &tunnelpb.ServerToClient_ResponseMessage{ResponseMessage: &tunnelpb.MessageData{Size: uint32(r.Size), Data: data}}
	case "more":
		f.Frame = &tunnelpb.ServerToClient_MoreResponseData{MoreResponseData: data}
	case "close":
		f.Frame = &tunnelpb.ServerToClient_CloseStream{CloseStream: &tunnelpb.CloseStream{
			Status:           &spb.Status{Code: int32(r.Code), Message: r.Msg},
			ResponseTrailers: toPbMD(r.MD),
		}}
	case "wu":
		f.Frame = &tunnelpb.ServerToClient_WindowUpdate{WindowUpdate: uint32(r.Len)}
	case "junk":
	}
	return f
}
