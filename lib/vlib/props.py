"""Per-property check definitions: which scenario families are executed against
the real code, which TLC model instances are checked, which formulas of the
trace specification decide the verdict."""
import json
import os

from . import gen, orch

ASSUMPTIONS = [
    "TLC/SANY and the Go toolchain (go1.26.8, testing/synctest) are trusted",
    "the in-memory carrier (harness/sim) renders gRPC bidi stream semantics faithfully",
    "payload / metadata / status equality is decided by the harness projection (tokens), ordering and exactly-once by the TLA+ trace specification",
    "scenarios are finite samples of the quantified space; exhaustive only where coverage.exhaustive says so",
]

# properties whose statement covers a crash of the process under test
# (C10: "RPCs already in flight are allowed to complete": a crash of the serve loop while shutting down ends them)
CRASH_DEFAULT = ("C02", "C03", "C07", "C09", "C10", "C12", "C15", "C16", "C18")


def fams(*fs):
    return list(fs)


def run_c18(pid, spec, tier, seed, replay=None):
    """C18: TLC enumerates the structured input domain (spec/GrpcTimeoutGen.tla), every input is
    executed through the public API against the real code, TLC validates the observed deadlines
    against the reference function (spec/GrpcTimeoutTrace.tla)."""
    import concurrent.futures as cf
    import subprocess
    binary = orch.build_harness()
    d = orch.fresh_dir("run-%s-%s" % (pid, tier))
    vec = os.path.join(d, "vectors.json")
    r = orch.tlc(os.path.join(orch.SPEC, "GrpcTimeoutGen.tla"), os.path.join(orch.SPEC, "GrpcTimeoutGen.cfg"),
                 env={"VERIF_OUT": vec, "VERIF_GT_MAXLEN": "3" if tier == "quick" else "4"})
    if not os.path.exists(vec):
        raise orch.Infra("TLC did not generate the input table:\n" + r.stdout[-1500:])
    nvec = len(json.load(open(vec)))
    shards = 8
    crashes = []

    def one(k):
        trc = os.path.join(d, "gt%d.ndjson" % k)
        env = dict(os.environ, VERIF_VECTORS=vec, VERIF_TRACES=trc, VERIF_SHARD="%d/%d" % (k, shards), GOTRACEBACK="all")
        p = subprocess.run([binary, "-test.run", "TestTimeouts", "-test.timeout", "0"], env=env, stdout=subprocess.PIPE,
                           stderr=subprocess.STDOUT, text=True)
        if p.returncode != 0:
            import re
            m = re.search(r"^(panic: .*|fatal error: .*)$", p.stdout, re.M)
            crashes.append({"scn": k, "name": "grpc-timeout shard %d" % k, "rc": p.returncode, "banner": m.group(1) if m else "",
                            "timeout": False, "output": p.stdout[-4000:], "scenario": {"name": "grpc-timeout shard %d" % k}})
        return trc
    with cf.ThreadPoolExecutor(max_workers=shards) as ex:
        traces = list(ex.map(one, range(shards)))
    viols = []
    states = 0
    lines = 0
    samples = []
    for tf in traces:
        if not os.path.exists(tf):
            continue
        with open(tf, "a") as f:
            f.write('{"ev":"end"}\n')
        outf = tf + ".verdict.json"
        r = orch.tlc(os.path.join(orch.SPEC, "GrpcTimeoutTrace.tla"), os.path.join(orch.SPEC, "GrpcTimeoutTrace.cfg"),
                     env={"VERIF_TRACE": tf, "VERIF_OUT": outf})
        if not os.path.exists(outf):
            raise orch.Infra("TLC did not finish validating %s:\n%s" % (tf, r.stdout[-1500:]))
        v = json.load(open(outf))
        ls = open(tf).read().split("\n")
        lines += v["lines"] - 1
        states += orch.tlc_stats(r.stdout)[0]
        if not samples:
            samples = [json.loads(x) for x in ls[:5] if x.startswith('{"ev":"gt"')]
        for idx, name, line, detail in v["violations"]:
            e = json.loads(ls[line - 1])
            viols.append({"formula": name, "detail": detail, "trace_file": None, "trace": None, "line": line,
                          "scenario": {"name": "grpc-timeout %r" % ["".join(x) for x in e["vals"]], "event": e}, "k": None, "scn": idx})
    cov = {"states": states, "transitions": states, "traces_validated_against_impl": lines, "evaluations": lines,
           "distinct_nontrivial": lines, "samples": samples, "exhaustive": lines == nvec,
           "rule": "the input domain is enumerated by TLC from spec/GrpcTimeoutGen.tla (all strings of length <= %s over a 13-character "
                   "alphabet, digit strings of every length 1..20 in four fill patterns x 6 units, per-unit boundary values, pairs of repeated "
                   "headers); every input is distinct by construction and executed once through the public API" % ("3" if tier == "quick" else "4"),
           "inputs_enumerated": nvec}
    return {"violations": viols, "crashes": crashes, "coverage": cov, "trace_files": []}


def run_registry(pid, spec, tier, seed, replay=None):
    """C12 (and the registry / server clauses of C10, C14): multi-tunnel registry scenarios executed against the real
    TunnelServiceHandler / ReverseTunnelServer, validated by TLC against spec/RegistryMon.tla; the registry design
    itself is model-checked exhaustively (spec/Registry.tla)."""
    import subprocess
    import concurrent.futures as cf
    binary = orch.build_harness()
    if replay:
        scenarios = [json.load(open(os.path.join(replay, "script.json")))["scenario"]] * 3
    else:
        scenarios = gen.fam_registry(seed, 120 if tier == "quick" else 1500)
    d = orch.fresh_dir("run-%s-%s-registry" % (pid, tier))
    shards = min(8, len(scenarios))
    crashes = []

    def one(k):
        part = scenarios[k::shards]
        scn = os.path.join(d, "rscn%d.ndjson" % k)
        trc = os.path.join(d, "rtrace%d.ndjson" % k)
        open(scn, "w").write("".join(json.dumps(x) + "\n" for x in part))
        skip = 0
        while skip < len(part):
            prog = os.path.join(d, "rprog%d" % k)
            out, rc, stalled = orch.run_child([binary, "-test.run", "TestRegistry", "-test.timeout", "0"],
                                              dict(os.environ, VERIF_REGISTRY="1", VERIF_SCENARIOS=scn, VERIF_TRACES=trc, VERIF_PROGRESS=prog,
                                                   VERIF_SKIP=str(skip), GOTRACEBACK="all"), prog, 1500, os.path.join(d, "rout%d.txt" % k))

            class P:
                pass
            p = P()
            p.returncode, p.stdout = rc, out
            st = open(prog).read().split() if os.path.exists(prog) else []
            if p.returncode == 0 and st and st[0] == "done":
                break
            if stalled and st and st[0] != "done":
                crashes.append({"scn": int(st[0]), "name": part[int(st[0])]["name"], "rc": rc, "banner": orch.STALL, "timeout": False, "stalled": True,
                                "output": orch.stall_digest(out), "scenario": part[int(st[0])]})
                skip = int(st[0]) + 1
                continue
            if not st or st[0] == "done":
                raise orch.Infra("registry harness failed without progress information:\n" + p.stdout[-1500:])
            import re
            m = re.search(r"^(panic: .*|fatal error: .*)$", p.stdout, re.M)
            crashes.append({"scn": int(st[0]), "name": part[int(st[0])]["name"], "rc": p.returncode, "banner": m.group(1) if m else "",
                            "timeout": False, "output": p.stdout[-4000:], "scenario": part[int(st[0])]})
            skip = int(st[0]) + 1
        return trc
    with cf.ThreadPoolExecutor(max_workers=shards) as ex:
        traces = list(ex.map(one, range(shards)))
    conf_future = None
    if not replay:
        # strict conformance of the recorded histories to the design model (spec/RegistryTrace.tla), next to the monitor
        from . import regconf
        conf_pool = cf.ThreadPoolExecutor(max_workers=1)
        conf_future = conf_pool.submit(regconf.check, list(traces), "%s-%s" % (pid, tier), 24 if tier == "quick" else 0)
    viols, lines, states = orch.validate(traces, spec="RegistryMon")
    n, distinct = orch.count_traces(traces)
    cov = {"states": states, "transitions": states, "traces_validated_against_impl": n, "evaluations": n, "distinct_nontrivial": distinct,
           "rule": "one evaluation = one registry history (tunnels opened/ended/broken, routed RPCs, readiness calls, gated sub-steps) executed "
                   "against the real handler and validated by TLC against spec/RegistryMon.tla; distinct by hash of (step, result) sequence",
           "exhaustive": False, "trace_events": lines, "scenarios": len(scenarios)}
    cov["registry_model_states"] = 0
    for cfgname in (["Registry_q2"] if tier == "quick" else ["Registry_q2", "Registry_quick", "Registry"]):
        mc = orch.tlc(os.path.join(orch.SPEC, "MC_Registry.tla"), os.path.join(orch.SPEC, cfgname + ".cfg"), workers=8, heap="6g", timeout=3000)
        if "No error has been found" in mc.stdout:
            st = orch.tlc_stats(mc.stdout)
            cov["states"] += st[0]
            cov["transitions"] += st[1]
            cov["registry_model_states"] += st[0]
        else:
            import re
            m = re.search(r"Invariant (\w+) is violated", mc.stdout)
            viols.append({"formula": "C12_Model_" + (m.group(1) if m else "error"), "detail": cfgname, "scenario": {"name": "Registry.tla " + cfgname},
                          "trace_file": None, "trace": None, "line": 0, "k": None})
    if conf_future is not None:
        try:
            conf = conf_future.result()
        except orch.Infra as e:
            conf = {"error": str(e)[:300]}
        conf_pool.shutdown()
        cov["registry_conformance"] = conf
        cov["states"] += conf.get("states", 0)
        if conf.get("rejected") or conf.get("error"):
            print("NOTE model-divergence: %s of %s registry histories are not explained by spec/Registry.tla (%s)" % (
                conf.get("rejected"), conf.get("checked"), (conf.get("rejections") or [{}])[0].get("detail", "")[:160]))
    return {"violations": viols, "crashes": crashes, "coverage": cov, "trace_files": traces}


def nohooks_half(scenarios):
    """every second scenario that holds nothing at a gate runs without any hook installed: the hooks take locks of the
    harness and thereby order the library's goroutines for the race detector (DESIGN.md section 15, round 5)"""
    k = 0
    for s in scenarios:
        if not s["cfg"].get("gates") and not s["cfg"].get("hooks"):
            k += 1
            if k % 2 == 0:
                s["cfg"] = dict(s["cfg"], hooks="off")
    return scenarios


def run_c15(pid, spec, tier, seed, replay=None):
    """C15: free-running concurrent programs (real parallelism, random delays at yield points, frames delivered at
    once) recorded and validated by the trace specification in monitor mode; the harness and the library are built
    with the Go race detector, whose reports are attributed here (auxiliary monitor, DESIGN section 8)."""
    binary = orch.build_harness(race=True)
    if replay:
        scenarios = [json.load(open(os.path.join(replay, "script.json")))["scenario"]] * 5
    else:
        scenarios = nohooks_half(spec[tier](seed))
    d, traces, crashes = orch.execute(binary, scenarios, "%s-%s" % (pid, tier), timeout=1500)
    viols, lines, states = orch.validate(traces)
    n, distinct = orch.count_traces(traces)
    cov = {"states": states, "transitions": states, "traces_validated_against_impl": n, "evaluations": n, "distinct_nontrivial": distinct,
           "without_hooks": sum(1 for s in scenarios if s["cfg"].get("hooks") == "off"),
           "rule": "one evaluation = one generated concurrent program (4-16 RPCs of mixed shapes, one sender and one receiver goroutine per RPC end, "
                   "Header/Trailer readers, optional Close/cancel/failure at a random event count) executed free-running under the race detector and "
                   "validated against spec/TunnelMon.tla; distinct by hash of the recorded (frame, result) sequence",
           "exhaustive": False, "trace_events": lines, "scenarios": len(scenarios), "race_detector": True}
    return {"violations": viols, "crashes": crashes, "coverage": cov, "trace_files": traces}


def run_c01(pid, spec, tier, seed, replay=None):
    """C01: tunnel-level scenarios + the sender core's gated replay (every atomic-step interleaving of a send with
    window updates and cancellation: the chunks emitted must add up to the message)"""
    from . import flow
    res = run(pid, dict(spec, runner=None), tier, seed, replay)
    if replay:
        return res
    binary = orch.build_harness()
    d = orch.fresh_dir("run-%s-%s-core" % (pid, tier))
    viols, cov, states, trans = flow.run(tier, binary, d, stress=0 if tier == "quick" else 500, seed=seed)
    res["violations"] += viols
    res["coverage"].update(cov)
    res["coverage"]["states"] += states
    res["coverage"]["transitions"] += trans
    return res


def run_c06(pid, spec, tier, seed, replay=None):
    """C06: tunnel-level scenarios (correct and overrunning peers) + the sender core (gated replay and a free-running
    stress of the real sender against a credit-granting peer, both judged by FlowSenderMon)"""
    from . import flow
    res = run(pid, dict(spec, runner=None), tier, seed, replay)
    if replay:
        return res
    binary = orch.build_harness()
    d = orch.fresh_dir("run-%s-%s-core" % (pid, tier))
    viols, cov, states, trans = flow.run(tier, binary, d, stress=150 if tier == "quick" else 2500, seed=seed)
    res["violations"] += viols
    res["coverage"].update(cov)
    res["coverage"]["states"] += states
    res["coverage"]["transitions"] += trans
    return res


def run_c17(pid, spec, tier, seed, replay=None):
    """C17: single-tunnel identity observations (TunnelMon) plus RPCs spread over several reverse tunnels (RegistryMon)"""
    if replay:
        return run(pid, dict(spec, runner=None), tier, seed, replay)
    import concurrent.futures as cf
    orch.build_harness()
    with cf.ThreadPoolExecutor(max_workers=2) as ex:
        f1 = ex.submit(run, pid, dict(spec, runner=None), tier, seed, None)
        f2 = ex.submit(run_registry, pid, spec, tier, seed, None)
        res, r2 = f1.result(), f2.result()
    res["violations"] += r2["violations"]
    res["crashes"] += r2["crashes"]
    for k in ("states", "transitions", "traces_validated_against_impl", "evaluations", "distinct_nontrivial"):
        res["coverage"][k] += r2["coverage"][k]
    res["coverage"]["registry_histories"] = r2["coverage"]["traces_validated_against_impl"]
    return res


def run_c05(pid, spec, tier, seed, replay=None):
    """C05: (1) the sender core: TLC checks FlowSender.tla exhaustively (safety + liveness), every transition of
    its stepped state graph is replayed against the real defaultSender through the yield gates and the recordings
    are validated by TLC; (2) tunnel level: flow families validated by the trace specification; (3) thorough:
    Apalache proves the credit-conservation invariant of FlowAbs.tla inductive for arbitrary window / sizes."""
    from . import flow
    res = run(pid, dict(spec, runner=None), tier, seed, replay)
    if replay:
        return res
    binary = orch.build_harness()
    d = orch.fresh_dir("run-%s-%s-core" % (pid, tier))
    viols, cov, states, trans = flow.run(tier, binary, d, stress=150 if tier == "quick" else 2500, seed=seed)
    res["violations"] += viols
    res["coverage"].update(cov)
    res["coverage"]["states"] += states
    res["coverage"]["transitions"] += trans
    if True:
        res["coverage"]["apalache"] = flow.apalache()
        if res["coverage"]["apalache"].get("failed"):
            res["violations"].append({"formula": "C05_Model_FlowAbsInductive", "detail": str(res["coverage"]["apalache"])[:300],
                                      "scenario": {"name": "FlowAbs induction"}, "trace_file": None, "trace": None, "line": 0, "k": None})
    return res


HANG = "fatal error: all goroutines are asleep - deadlock!"
MC_DEFAULT = {"quick": ["MC_one"], "thorough": ["MC_one", "MC_err_cancel", "MC_down_cancel", "MC_err_close", "MC_err_shutdown", "MC_two_stepped"]}

PROPS = {
    "C01": {"level": "model_checking", "model_replay": (60, 600), "runner": run_c01, "also": ["C13_ChunksAddUp", "C13_Framing"], "mc": {"quick": ["MC_one", "MC_two_stepped"], "thorough": ["MC_one", "MC_two_stepped", "MC_err_cancel", "MC_down_cancel", "MCT_one_close", "MC_bad_cancel"]},
            "quick": lambda s: gen.fam_data(s, 64) + gen.fam_misuse(s) + gen.fam_life(s, 4, policies=("lazy", "slowsrv", "slowcli"), causes=("close", "ctxcancel"), fcs=("fc",))
                               + gen.fam_cancel(s, 4, policies=("lazy", "slowsrv", "slowcli"), fcs=("fc",))
                               + gen.fam_gates(s, 3, gates=["cli.alloc", "cli.new.sent", "car.sent.c2s.new", "car.sent.c2s.msg", "car.sent.s2c.msg", "srv.watch.fired"], faults=("none", "cancel@park", "cancel")),
            "thorough": lambda s: gen.fam_data(s, 600, big=True) + gen.fam_life(s, 0) + gen.fam_cancel(s, 0) + gen.fam_gates(s, 0)},
    "C13": {"level": "model_checking", "model_replay": (40, 400), "mc": {"quick": ["MC_one", "MC_down_cancel"], "thorough": ["MC_one", "MC_down_cancel", "MC_err_cancel", "MC_two_stepped", "MCT_two_stepped_all"]},
            "quick": lambda s: gen.fam_data(s, 48) + gen.fam_misuse(s) + gen.fam_cancel(s, 4, policies=("eager", "slowcli"), fcs=("fc",)) + gen.fam_indep(s, 4, policies=("random",))
                               + gen.fam_free(s, 48) + [x for x in gen.fam_hostile_srv(s) if "-off-" in x["name"] or "-legacy-" in x["name"]][:60] + [x for x in gen.fam_hostile_srv(s) if "eager-before-settings" in x["name"]] + gen.fam_neg(s)[:40],
            "thorough": lambda s: gen.fam_data(s, 400, big=True) + gen.fam_cancel(s, 0) + gen.fam_indep(s, 0) + gen.fam_life(s, 12) + gen.fam_gates(s, 4)},
    "C06": {"level": "model_checking", "model_replay": (30, 300), "runner": run_c06, "hang": True,
            "also": ["C09_SrvStreamLevel", "C09_CliStreamLevel", "C09_BoundedBuffer", "C05_CreditConserved", "C05_CreditExact"],
            "quick": lambda s: gen.fam_data(s, 48) + gen.fam_flow(s, 16) + [x for x in gen.fam_hostile_srv(s) + gen.fam_hostile_cli(s) if "overrun" in x["name"]]
                               # request data waiting, unread, in the receiver when the RPC ends there: discarded, never credited
                               + [x for x in gen.fam_inflight(s, fcs=("fc",)) if "buffered" in x["name"]],
            "thorough": lambda s: gen.fam_data(s, 600, big=True) + gen.fam_flow(s, 200) + gen.fam_hostile_srv(s) + gen.fam_hostile_cli(s) + gen.fam_inflight(s)},
    "C04": {"level": "model_checking", "model_replay": (40, 400), "mc": {"quick": ["MC_err_close", "MC_err_fail"], "thorough": ["MC_err_close", "MC_err_fail", "MCT_one_close", "MCT_err_all2", "Live_one", "Live_err_cancel"]}, "also": ["C16_NoSuccessOnWrongCount", "C09_CliTunnelLevel"], "hang": True,
            # + a tunnel that ends before it was ever usable (the peer's first frame is no usable settings frame, or the
            #   stream just ends): whoever is opening it (Start, the reverse-tunnel handler) is released like any other caller
            "quick": lambda s: gen.fam_life(s, 5) + [x for x in gen.fam_neg(s) if "neg-first" in x["name"] or "-revs2-" in x["name"] or "-revs78-" in x["name"] or "-sid1" in x["name"]],
            "thorough": lambda s: gen.fam_life(s, 0) + gen.fam_gates(s, 0, faults=("close",)) + gen.fam_neg(s)},
    "C07": {"level": "model_checking", "model_replay": (40, 400), "mc": {"quick": ["MC_err_cancel"], "thorough": ["MC_err_cancel", "MC_down_cancel", "MCT_one_cancel", "Live_err_cancel"]}, "also": ["C16_NoSuccessOnWrongCount"], "hang": True,
            "quick": lambda s: gen.fam_cancel(s, 5) + gen.fam_inflight(s) + gen.fam_gates(s, 4, gates=["cli.alloc", "cli.watch.fired", "cli.cancel.finished", "cli.cancel.emit", "cli.frame.dispatch", "srv.frame.dispatch", "srv.finish.cancelled", "srv.close.emit", "car.sent.c2s.cancel"], faults=("cancel@park", "cancel")),
            "thorough": lambda s: gen.fam_cancel(s, 0) + gen.fam_inflight(s) + gen.fam_gates(s, 0, faults=("cancel",))},
    "C03": {"level": "model_checking", "hang": True, "mc": {"quick": ["MC_two_stepped"], "thorough": ["MC_two_stepped", "MCT_two_stepped_all"]},
            "quick": lambda s: gen.fam_indep(s, 8) + gen.fam_flow(s, 16, caps=(1, 2, 1, 4)) + gen.fam_shutdown(s, 3, policies=("eager",))
                               + gen.fam_gates(s, 4, gates=["cli.alloc", "cli.tx.lock", "car.sent.c2s.new", "srv.reject.emit"], faults=("cancel@park", "cancel"))
                               # an RPC that ENDS with unread data behind it (deadline, cancel, early return; with and without flow control):
                               # the bystander on the same tunnel goes on
                               + [x for x in gen.fam_inflight(s) if "-3" in x["name"][-3:]] + gen.fam_cancel(s, 2, policies=("slowcli", "lazy"), fcs=("nofc",)),
            "thorough": lambda s: sum((gen.fam_indep(s + i, 0) for i in range(8)), []) + gen.fam_shutdown(s, 0) + gen.fam_gates(s, 0, faults=("cancel",)) + gen.fam_inflight(s) + gen.fam_cancel(s, 0)},
    "C14": {"level": "model_checking", "snap": True, "hang": True, "runner": run_c17,
            # (an application goroutine left blocked inside a call of an RPC that is over is retained by the library just as well)
            "also": ["C12_RegistryMatches", "C12_Callbacks", "C04_CallsEnd", "C07_CallerEndsAlone", "C07_HandlerReleased"],
            "quick": lambda s: gen.fam_life(s, 8, policies=("lazy", "slowcli"), causes=("close", "srvgone", "carfail", "stop"), fcs=("fc",))
                               + gen.fam_life(s, 2, policies=("eager",), fcs=("nofc",))
                               + gen.fam_cancel(s, 3, policies=("lazy", "slowcli")) + gen.fam_indep(s, 3, policies=("random",))
                               + [x for x in gen.fam_misuse(s) if "unencodable" in x["name"]],   # calls that fail before anything of them is sent
            "thorough": lambda s: gen.fam_life(s, 0) + gen.fam_cancel(s, 0) + gen.fam_indep(s, 0) + gen.fam_gates(s, 4) + gen.fam_misuse(s)},
    "C02": {"level": "model_checking", "also": ["C16_NoSuccessOnWrongCount"], "race_extra": lambda s: gen.fam_free(s, 40),
            # the design with header / trailer values: every interleaving with a Close (quick) and with a cancel (thorough, 12 M states)
            "mc": {"quick": ["MC_one", "MC_meta2_close"], "thorough": ["MC_one", "MC_meta2_close", "MC_meta_cancel", "MC_err_fail"]}, "model_replay": (28, 280),
            "quick": lambda s: gen.fam_meta(s, 160) + gen.fam_data(s, 24) + gen.fam_unary_failing_sends(s),
            "thorough": lambda s: sum((gen.fam_meta(s + i, 400, gated=(i == 0)) for i in range(4)), []) + gen.fam_data(s, 200)},
    "C16": {"level": "model_checking",
            "quick": lambda s: gen.fam_shape(s) + gen.fam_misuse(s),
            "thorough": lambda s: gen.fam_shape(s) + gen.fam_misuse(s) + gen.fam_hostile_srv(s) + gen.fam_hostile_cli(s)},
    "C11": {"level": "model_checking", "hang": True, "runner": run_c17,   # + several tunnels negotiating differently on one handler
            "quick": lambda s: gen.fam_neg(s),
            "thorough": lambda s: gen.fam_neg(s) + gen.fam_data(s, 120)},
    "C08": {"level": "model_checking", "hang": True, "also": ["C09_SrvTunnelLevel"],
            "quick": lambda s: gen.fam_ids(s, 64) + [x for x in gen.fam_hostile_srv(s) if "-new-" in x["name"] or "unknown-sid" in x["name"] or "-sid0" in x["name"] or "negative" in x["name"] or "disposed" in x["name"] or "-shutdown" in x["name"]]
                               # an RPC cancelled while its creator stands between id allocation and the new-stream frame reaching the wire
                               + gen.fam_gates(s, 2, gates=["cli.alloc", "cli.tx.lock", "cli.new.sent"], faults=("cancel@park",)),
            "thorough": lambda s: gen.fam_ids(s, 600) + gen.fam_hostile_srv(s) + gen.fam_gates(s, 4, gates=["cli.alloc", "cli.new.sent", "car.sent.c2s.new"])},
    "C09": {"level": "model_checking", "hang": True,
            "quick": lambda s: gen.fam_hostile_srv(s) + gen.fam_hostile_cli(s) + gen.fam_hostile_mdfuzz(s, 40),
            "thorough": lambda s: gen.fam_hostile_srv(s) + gen.fam_hostile_cli(s) + sum((gen.fam_hostile_mdfuzz(s + i, 100) for i in range(6)), [])},
    "C05": {"level": "model_checking", "runner": run_c05, "hang": True, "engine": "tlc-flowsender",
            # (a sender waiting for credit is released when its RPC is cancelled: C05's own quantification includes cancellation)
            "also": ["C03_BystandersComplete", "C06_SenderWithinWindow", "C06_CreditBounded", "C07_CallerEndsAlone", "C07_HandlerReleased"],
            # liveness of the tunnel design under fairness (every caller operation returns, every handler ends)
            "mc": {"quick": ["MC_one"], "thorough": ["MC_one", "MC_two_stepped", "Live_one", "Live_err_cancel"]},
            "quick": lambda s: gen.fam_flow(s, 48) + gen.fam_data(s, 16),
            "thorough": lambda s: gen.fam_flow(s, 400) + gen.fam_data(s, 100, big=True),
            "technique": "TLC model checking of FlowSender.tla + exhaustive gated replay of its state graph against the real sender (trace validation); tunnel-level trace validation; Apalache induction on FlowAbs.tla (thorough)"},
    "C12": {"level": "model_checking", "runner": run_registry, "engine": "tlc-registry", "hang": True,
            "also": ["C14_ServeLeavesNothing", "C14_RegistryEmptyAtEnd", "C10_NoNewTunnels", "C10_StopMeansStopped"],
            "technique": "TLC model checking of Registry.tla (two-step registration, unregister, round robin, callbacks; liveness) + TLA+ trace validation of multi-tunnel histories of the real handler (RegistryMon.tla) + strict conformance of those histories to the model (RegistryTrace.tla)",
            "text": "the registry design (global and per-key lists updated in separate critical sections by handler and closer threads, round-robin cursor, readiness latch, callbacks) is model-checked exhaustively for three tunnels; histories of the real TunnelServiceHandler / ReverseTunnelServer (tunnels opened with colliding or no keys, ended from either side or broken, at every sub-step, interleaved with routed RPCs, Ready/WaitForReady and enumeration) are recorded and TLC evaluates the C12 formulas in every state of every history and searches for a behaviour of the design model that explains it"},
    "C15": {"level": "exploration", "runner": run_c15, "hang": True, "race": True,
            "also": ["C01_", "C02_", "C03_B", "C04_", "C05_", "C06_", "C07_", "C08_", "C13_", "C14_", "C16_", "C17_"],
            "quick": lambda s: gen.fam_free(s, 64) + [x for x in gen.fam_meta(s, 32, gated=False) if "meta-bin" not in x["name"]]
                               # a goroutine held inside a multi-step procedure while the RPC is cancelled / the channel closed
                               + gen.fam_gates(s, 2, gates=["cli.hdr.accept", "cli.finish.cas", "cli.finish.removed", "cli.tx.lock", "srv.close.mid", "srv.finish.removed"],
                                               faults=("cancel@park", "close@park"))
                               # frames still in flight when a deadline ends the RPC on both ends (revision zero included)
                               + [x for x in gen.fam_cancel(s, 2, policies=("lazy",), fcs=("fc",)) if "deadline" in x["name"]]
                               + gen.fam_inflight(s) + gen.fam_stalled_close(s) + gen.fam_unary_failing_sends(s),
            "thorough": lambda s: sum((gen.fam_free(s + i, 400) for i in range(4)), []) + [x for x in gen.fam_meta(s, 200, gated=False) if "meta-bin" not in x["name"]] + gen.fam_data(s, 100),
            "technique": "TLA+ trace validation (monitor mode) of free-running concurrent executions; Go race detector attached as auxiliary monitor",
            "text": "thread-safety is decided as conformance of concurrent executions: every free-running execution of a generated concurrent program, recorded with "
                    "call/return intervals and lock-ordered wire events, must satisfy every observation-level formula of the trace specification (the concurrent history is "
                    "explainable by the sequential meaning of the API), must not panic or deadlock, and must leave nothing behind; data races without observable effect are "
                    "outside what a TLA+ specification can express and are reported by the Go race detector attached to the same runs"},
    "C17": {"level": "model_checking", "runner": run_c17, "also": ["C02_RequestMD"],
            "quick": lambda s: gen.fam_meta(s, 96, gated=False) + gen.fam_nested(s) + gen.fam_data(s, 32) + gen.fam_ids(s, 16),
            "thorough": lambda s: gen.fam_meta(s, 600, gated=False) + sum((gen.fam_nested(s + i) for i in range(6)), []) + gen.fam_data(s, 200) + gen.fam_ids(s, 100)},
    "C18": {"level": "model_checking", "runner": run_c18, "engine": "tlc-grpc-timeout",
            "technique": "TLA+ reference function (GrpcTimeout.tla); TLC enumerates the input domain and validates every observed handler deadline",
            "text": "the gRPC wire rule for grpc-timeout is a total TLA+ function; TLC enumerates the structured input domain completely, each input is executed "
                    "through the public API against the real tunnel inside a synctest bubble (virtual time), and TLC checks the three C18 formulas on each observation"},
    "C10": {"level": "model_checking", "hang": True, "runner": run_c17,
            "also": ["C04_ClientObserves", "C04_ServerObserves", "C04_HandlersReleased", "C04_CallsEnd"],
            "quick": lambda s: gen.fam_shutdown(s, 6) + gen.fam_life(s, 4, causes=("gstop+stop", "stop"), dirs=("rev",), fcs=("fc",), policies=("eager", "lazy")),
            "thorough": lambda s: gen.fam_shutdown(s, 0) + gen.fam_life(s, 0, causes=("gstop+stop", "stop"), dirs=("rev",))},
}


def run(pid, spec, tier, seed, replay=None):
    if spec.get("runner"):
        return spec["runner"](pid, spec, tier, seed, replay)
    binary = orch.build_harness()
    if replay:
        sc = json.load(open(os.path.join(replay, "script.json")))["scenario"]
        scenarios = [sc] * 3
    else:
        scenarios = spec[tier](seed)
    nreplay = 0
    if not replay and spec.get("model_replay"):
        # spec -> implementation: behaviours of the detailed model generated by TLC, replayed on the real code
        from . import modelgen
        ms = modelgen.fam_model(seed, spec["model_replay"][0 if tier == "quick" else 1])
        nreplay = len(ms)
        scenarios = scenarios + ms
    if spec.get("snap"):
        for s in scenarios:
            s["cfg"] = dict(s["cfg"], snap=True)
    d, traces, crashes = orch.execute(binary, scenarios, "%s-%s" % (pid, tier))
    if not replay and spec.get("race_extra"):
        # the same kind of executions free-running under the Go race detector (auxiliary monitor)
        rb = orch.build_harness(race=True)
        d2, t2, c2 = orch.execute(rb, spec["race_extra"](seed), "%s-%s-race" % (pid, tier))
        traces = traces + t2
        crashes = crashes + c2
    conf_future = None
    if nreplay:
        # strict conformance at quiescent points of the replayed model behaviours (spec/TunnelTrace.tla): runs
        # next to the monitor and the model checker
        import concurrent.futures as cf
        from . import modelconf
        conf_pool = cf.ThreadPoolExecutor(max_workers=1)
        conf_future = conf_pool.submit(modelconf.check, list(traces), ms, "%s-%s" % (pid, tier), 16 if tier == "quick" else 0)
    viols, lines, states = orch.validate(traces)
    n, distinct = orch.count_traces(traces)
    mc_states = mc_trans = 0
    mc_runs = {}
    if not replay:
        # the design: TLC checks the same formulas on every reachable state of the detailed model (spec/Tunnel.tla)
        for cfgname in spec.get("mc", {}).get(tier, MC_DEFAULT[tier]):
            r = orch.tlc(os.path.join(orch.SPEC, "MC_Tunnel.tla"), os.path.join(orch.SPEC, cfgname + ".cfg"), workers=12, heap="10g", timeout=3000)
            if "No error has been found" in r.stdout:
                st = orch.tlc_stats(r.stdout)
                mc_states += st[0]
                mc_trans += st[1]
                mc_runs[cfgname] = {"distinct_states": st[0], "states_generated": st[1], "result": "all invariants hold"}
            else:
                import re
                m = re.search(r"Invariant (\w+) is violated", r.stdout)
                mc_runs[cfgname] = {"result": "MODEL: " + (m.group(0) if m else "did not finish"), "note": "a counterexample of the model is not a verdict about the code"}
                print("NOTE model-instance=%s %s" % (cfgname, mc_runs[cfgname]["result"]))
    skips = 0
    for tf in traces:
        try:
            skips += sum(1 for ln in open(tf) if ln.startswith('{"ev":"skip"'))
        except OSError:
            pass
    conf = {}
    if conf_future is not None:
        try:
            conf = conf_future.result()
        except orch.Infra as e:
            conf = {"error": str(e)[:300]}
        conf_pool.shutdown()
        if conf.get("rejected") or conf.get("error"):
            # the implementation is no longer the modelled design on these schedules (or the model is wrong):
            # not a verdict about a property; the evidence records it
            print("NOTE model-divergence: %d of %d replayed model behaviours are not explained by spec/Tunnel.tla (%s)" % (
                conf.get("rejected", 0) + (conf.get("error") if isinstance(conf.get("error"), int) else 0), conf.get("checked", 0),
                (conf.get("rejections") or [{}])[0].get("detail", "")[:160]))
        mc_states += conf.get("states", 0)
    cov = {
        "model_conformance": conf,
        "states": states + mc_states, "transitions": states + mc_trans,
        "trace_validation_states": states, "model_instances": mc_runs,
        "model_behaviours_replayed_on_impl": nreplay, "driver_steps_not_executable": skips,
        "traces_validated_against_impl": n,
        "evaluations": n, "distinct_nontrivial": distinct,
        "rule": "one evaluation = one scenario executed against the real library and validated step by step against "
                "spec/TunnelMon.tla; distinct = distinct sequences of (driver step, frame sent, call result) by hash",
        "trace_events": lines,
        "scenarios": len(scenarios),
        "exhaustive": False,
        "configs": sorted(set(s["name"].split("-")[0] for s in scenarios)),
    }
    return {"violations": viols, "crashes": crashes, "coverage": cov, "trace_files": traces}

NOT_YET = {}
DEFAULT_TEXT = ("TLC evaluates the property's formulas (spec/TunnelMon.tla, names prefixed with the property id) in every state of "
                "every recorded execution of the real library; executions are generated by systematic enumeration (every fault "
                "point k of canonical workloads) and seeded random scheduling of scripted applications over a carrier the harness controls")
DEFAULT_NOTE = ("trusts TLC, the Go toolchain/synctest, the harness's in-memory carrier and projection; bounded: finite scenario "
                "families, see evidence coverage")
DEFAULT_TECHNIQUE = "TLA+ trace validation with TLC of step-driven executions of the real code (model-based)"
