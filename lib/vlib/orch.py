"""Orchestration: build the harness against /repo, execute scenarios in child
processes (crash isolation), validate the traces with TLC against the trace
specification, collect verdicts, write evidence."""
import concurrent.futures as cf
import hashlib
import json
import os
import re
import shutil
import subprocess
import sys
import time

VERIF = os.path.dirname(os.path.dirname(os.path.dirname(os.path.abspath(__file__))))
REPO = os.environ.get("VERIF_REPO", "/repo")
WORK = os.environ.get("VERIF_WORK") or os.path.join(VERIF, "work")
EVIDENCE = os.environ.get("VERIF_EVIDENCE") or os.path.join(VERIF, "evidence")
SPEC = os.path.join(VERIF, "spec")
HARNESS = os.path.join(VERIF, "harness")
NPROC = int(os.environ.get("VERIF_NPROC", "0")) or min(16, os.cpu_count() or 4)

GOENV = dict(os.environ, GOFLAGS="-mod=mod", GOPROXY="off", GOSUMDB="off", GOTOOLCHAIN="local",
             CGO_ENABLED=os.environ.get("CGO_ENABLED", "0"))
GO = shutil.which("go1.26.8") or "/usr/local/bin/go1.26.8"


class Infra(Exception):
    """infrastructure trouble: never a violation (exit 2)"""


def log(*a):
    print(*a, file=sys.stderr, flush=True)


def sh(cmd, **kw):
    return subprocess.run(cmd, stdout=subprocess.PIPE, stderr=subprocess.STDOUT, text=True, **kw)


def fresh_dir(name):
    d = os.path.join(WORK, name)
    shutil.rmtree(d, ignore_errors=True)
    os.makedirs(d)
    return d


def harness_src():
    """The harness module builds against /repo (go.mod replace). When another
    tree is to be checked (VERIF_REPO: scratch worktrees with seeded changes), a
    scratch copy of the module with the replace directive redirected is used."""
    if os.path.abspath(REPO) == "/repo":
        return HARNESS
    d = os.path.join(WORK, "harness-src")
    shutil.rmtree(d, ignore_errors=True)
    shutil.copytree(HARNESS, d, ignore=shutil.ignore_patterns("bin"))
    gm = os.path.join(d, "go.mod")
    txt = open(gm).read().replace("=> /repo", "=> " + os.path.abspath(REPO))
    open(gm, "w").write(txt)
    return d


_BUILT = {}
_BUILD_LOCK = __import__("threading").Lock()


def build_harness(race=False, pkg="./drv", out="drv.test"):
    """(Re)build the harness test binary against the repository's current working tree
    (once per check invocation and flavour)."""
    with _BUILD_LOCK:
        key = (race, pkg, out)
        if key not in _BUILT:
            _BUILT[key] = _build_harness(race, pkg, out)
        return _BUILT[key]


def _build_harness(race=False, pkg="./drv", out="drv.test"):
    os.makedirs(os.path.join(WORK, "bin"), exist_ok=True)
    src = harness_src()
    # keep go.sum in step with the repository's
    try:
        shutil.copyfile(os.path.join(REPO, "go.sum"), os.path.join(src, "go.sum"))
    except OSError:
        pass
    target = os.path.join(WORK, "bin", out + (".race" if race else ""))
    env = dict(GOENV)
    cmd = [GO, "test", "-c", "-tags", "verif", "-o", target, pkg]
    if race:
        env["CGO_ENABLED"] = "1"
        cmd.insert(2, "-race")
    r = sh(cmd, cwd=src, env=env)
    if r.returncode != 0:
        raise Infra("harness does not build against %s with -tags verif:\n%s" % (REPO, r.stdout[-4000:]))
    return target


# ---------------------------------------------------------------------------
# executing scenarios


STALL = "stalled: no progress and no CPU use, goroutines blocked inside the library"
STALL_S = float(os.environ.get("VERIF_STALL_S", "45"))


def cpu_ticks(pid):
    try:
        f = open("/proc/%d/stat" % pid).read().rsplit(")", 1)[1].split()
        return int(f[11]) + int(f[12])
    except (OSError, IndexError, ValueError):
        return 0


def stall_digest(out):
    """the goroutines of the dump that are blocked inside the library (first frames)"""
    keep = []
    for g in re.split(r"\n\n(?=goroutine \d+)", out):
        if "github.com/jhump/grpctunnel." in g and re.search(r"\[(sync\.|semacquire|chan |select|sync\.Mutex)", g.split("\n", 1)[0]):
            keep.append("\n".join(g.split("\n")[:9]))
    return ("\n\n".join(keep))[-6000:]


def run_child(cmd, env, prog, timeout, outfile):
    """run one harness child; kill it with SIGQUIT (goroutine dump) when it has stalled: the progress file
    has not changed and the process has used (almost) no CPU for STALL_S seconds - a deadlock that the Go
    runtime cannot see (goroutines blocked on mutexes).  Returns (output, rc, stalled)."""
    import signal
    with open(outfile, "w") as fo:
        p = subprocess.Popen(cmd, env=env, stdout=fo, stderr=subprocess.STDOUT)
        t0 = time.time()
        last_prog, last_cpu, last_change = None, 0, time.time()
        stalled = False
        while True:
            try:
                p.wait(timeout=1.0)
                break
            except subprocess.TimeoutExpired:
                pass
            now = time.time()
            try:
                cur = open(prog).read()
            except OSError:
                cur = None
            cpu = cpu_ticks(p.pid)
            if cur != last_prog or cpu - last_cpu > 20:   # > 0.2 s of CPU since the last mark
                last_prog, last_cpu, last_change = cur, cpu, now
            if now - last_change > STALL_S and cur is not None:
                stalled = True
                p.send_signal(signal.SIGQUIT)
                try:
                    p.wait(timeout=20)
                except subprocess.TimeoutExpired:
                    p.kill()
                    p.wait()
                break
            if now - t0 > timeout:
                p.kill()
                p.wait()
                return open(outfile, errors="replace").read(), -9, False
    out = open(outfile, errors="replace").read()
    if stalled and "github.com/jhump/grpctunnel." not in stall_digest(out):
        # nothing of the library is blocked: not a verdict about the library
        return out, -9, False
    return out, (p.returncode if not stalled else -9), stalled


def run_shard(binary, scenarios, d, k, timeout):
    """Run scenarios in one child process; restart after a crash.
    Returns (trace file, crashes[list of dict])."""
    scn = os.path.join(d, "scn%d.ndjson" % k)
    trc = os.path.join(d, "trace%d.ndjson" % k)
    prog = os.path.join(d, "prog%d" % k)
    with open(scn, "w") as f:
        for s in scenarios:
            f.write(json.dumps(s) + "\n")
    crashes = []
    skip = 0
    t_end = time.time() + timeout
    while skip < len(scenarios):
        env = dict(os.environ, VERIF_SCENARIOS=scn, VERIF_TRACES=trc, VERIF_PROGRESS=prog, VERIF_SKIP=str(skip),
                   GOTRACEBACK="all", GORACE="halt_on_error=1")
        left = max(5, t_end - time.time())
        out, rc, stalled = run_child([binary, "-test.run", "TestScenarios", "-test.timeout", "0"], env, prog, left,
                                     os.path.join(d, "out%d.txt" % k))
        try:
            p = open(prog).read().split()
        except OSError:
            p = []
        if rc == 0 and p and p[0] == "done":
            break
        if not p or p[0] == "done":
            raise Infra("harness child failed without progress information:\n" + out[-3000:])
        idx = int(p[0])
        banner = ""
        m = re.search(r"^(panic: .*|fatal error: .*|WARNING: DATA RACE)$", out, re.M)
        if m:
            banner = m.group(1)
        if stalled:
            banner = STALL
        crashes.append({"scn": idx, "name": scenarios[idx].get("name", ""), "rc": rc, "banner": banner,
                        "timeout": rc == -9 and not stalled, "stalled": stalled, "output": out[-6000:] if not stalled else stall_digest(out),
                        "scenario": scenarios[idx]})
        skip = idx + 1
        if rc == -9 and not stalled:
            break
    return trc, crashes


def execute(binary, scenarios, tag, timeout=900, shards=None):
    """Run all scenarios, sharded over child processes. Returns (list of trace
    files with their scenario offset, crashes)."""
    d = fresh_dir("run-" + tag)
    n = shards or NPROC
    n = max(1, min(n, len(scenarios)))
    parts = [scenarios[i::n] for i in range(n)]
    res = []
    crashes = []
    with cf.ThreadPoolExecutor(max_workers=n) as ex:
        futs = {ex.submit(run_shard, binary, parts[k], d, k, timeout): k for k in range(n)}
        for fu in cf.as_completed(futs):
            k = futs[fu]
            trc, cr = fu.result()
            res.append((k, trc))
            for c in cr:
                c["shard"] = k
            crashes.extend(cr)
    res.sort()
    return d, [t for _, t in res], crashes


# ---------------------------------------------------------------------------
# validating traces with TLC


TLA_CP = "/opt/veriftools/tla/tla2tools.jar:/opt/veriftools/tla/CommunityModules-deps.jar"


def tlc(spec, cfg, env=None, workers=1, extra=(), timeout=1800, metadir=None, heap="3g", gcthreads=2, props=()):
    """Run TLC (the same class the `tlc` wrapper runs, with an explicit heap so
    that many validations can run side by side)."""
    e = dict(os.environ)
    if env:
        e.update(env)
    md = metadir or fresh_dir("tlc-%d-%d" % (os.getpid(), time.time_ns()))
    cmd = ["timeout", str(timeout), "java", "-Xmx" + heap, "-Xss64m", "-XX:+UseParallelGC",
           "-XX:ParallelGCThreads=%d" % gcthreads] + list(props) + ["-cp", TLA_CP, "tlc2.TLC",
           "-workers", str(workers), "-metadir", md, "-config", cfg]
    # (no trace-exploration spec next to the specification when TLC reports a counterexample)
    cmd += [x for x in ["-noGenerateSpecTE"] if x not in extra] + list(extra) + [spec]
    r = sh(cmd, cwd=SPEC, env=e)
    shutil.rmtree(md, ignore_errors=True)
    return r


def tlc_stats(out):
    m = re.search(r"(\d+) states generated, (\d+) distinct states found", out)
    if not m:
        return 0, 0
    return int(m.group(2)), int(m.group(1))


def monitor_one(trace_file, spec="TunnelMon"):
    """Validate one (concatenated) trace file; returns (violations, lines, states)."""
    if not os.path.exists(trace_file) or os.path.getsize(trace_file) == 0:
        return [], 0, 0, {}
    with open(trace_file, "a") as f:
        f.write('{"ev":"end","i":0}\n')
    outf = trace_file + ".verdict.json"
    if os.path.exists(outf):
        os.remove(outf)
    r = tlc(os.path.join(SPEC, spec + ".tla"), os.path.join(SPEC, spec + ".cfg"),
            env={"VERIF_TRACE": trace_file, "VERIF_OUT": outf}, workers=1)
    if not os.path.exists(outf):
        tail = "\n".join(l for l in r.stdout.splitlines() if not l.startswith(("Parsing file", "Semantic processing", "Linting")))
        raise Infra("TLC did not finish validating %s:\n%s" % (trace_file, tail[-1500:]))
    v = json.load(open(outf))
    nlines = sum(1 for _ in open(trace_file))
    if v.get("lines") != nlines:
        raise Infra("trace %s not fully consumed (%s of %d lines)" % (trace_file, v.get("lines"), nlines))
    st, _ = tlc_stats(r.stdout)
    # map trace index -> (first line, scenario record)
    return v["violations"], nlines, st, {}


def load_sidecar(trace_file):
    out = {}
    try:
        for ln in open(trace_file + ".scn"):
            rec = json.loads(ln)
            out[rec["trace"]] = rec
    except OSError:
        pass
    return out


def validate(trace_files, spec="TunnelMon"):
    """Returns list of violations: dict(formula, trace_file, trace, line, scenario)."""
    viols = []
    total_lines = 0
    total_states = 0
    with cf.ThreadPoolExecutor(max_workers=min(NPROC, max(1, len(trace_files)))) as ex:
        for tf, (vs, nlines, st, _) in zip(trace_files, ex.map(lambda t: monitor_one(t, spec), trace_files)):
            total_lines += nlines
            total_states += st
            side = load_sidecar(tf)
            for tidx, name, line, detail in vs:
                rec = side.get(tidx, {})
                viols.append({"formula": name, "detail": detail, "trace_file": tf, "trace": tidx, "line": line,
                              "scenario": rec.get("scenario"), "k": rec.get("k"), "scn": rec.get("scn")})
    return viols, total_lines, total_states


def count_traces(trace_files):
    n = 0
    hashes = set()
    samples = []
    for tf in trace_files:
        if not os.path.exists(tf):
            continue
        cur = None
        h = None
        for ln in open(tf):
            if ln.startswith('{"ev":"reset"'):
                if h is not None:
                    hashes.add(h.hexdigest())
                h = hashlib.sha1()
                n += 1
                continue
            if h is None:
                continue
            # distinctness: the sequence of steps, frames and results (without sequence numbers)
            try:
                e = json.loads(ln)
            except ValueError:
                continue
            if e.get("ev") in ("step", "wire.send", "op.ret", "ctl"):
                e.pop("i", None)
                h.update(json.dumps(e, sort_keys=True).encode())
        if h is not None:
            hashes.add(h.hexdigest())
    return n, len(hashes)


def extract_trace(trace_file, tidx):
    """lines of trace number tidx (without the reset line)"""
    out = []
    on = False
    for ln in open(trace_file):
        if ln.startswith('{"ev":"reset"'):
            on = json.loads(ln).get("idx") == tidx
            continue
        if on and not ln.startswith('{"ev":"end"'):
            out.append(ln)
    return out
