"""C05 core: exhaustive gated replay of the FlowSender state graph against the real defaultSender."""
import collections
import json
import os
import re
import subprocess

from . import orch

CONFIGS = {
    "a": {"W0": 2, "CH": 2, "Msg": 4, "Credits": [1, 0, 2, 1], "MayCancel": True},
    "b": {"W0": 1, "CH": 2, "Msg": 5, "Credits": [1, 1, 1, 1], "MayCancel": False},
    "c": {"W0": 0, "CH": 2, "Msg": 3, "Credits": [3], "MayCancel": False},
    "d": {"W0": 3, "CH": 2, "Msg": 4, "Credits": [], "MayCancel": True},
    "e": {"W0": 0, "CH": 3, "Msg": 0, "Credits": [3], "MayCancel": True},
}
URGENT = {"SWake", "SCtx"}


def model_check(cfgname):
    """exhaustive check of the sender core (safety + liveness)"""
    r = orch.tlc(os.path.join(orch.SPEC, "MC_FlowSender.tla"), os.path.join(orch.SPEC, "MC_FlowSender_%s.cfg" % cfgname), workers=4)
    if "Model checking completed. No error has been found." not in r.stdout:
        return None, r.stdout
    return orch.tlc_stats(r.stdout), r.stdout


def state_graph(cfgname, d):
    dot = os.path.join(d, "fs_%s.dot" % cfgname)
    r = orch.tlc(os.path.join(orch.SPEC, "MC_FlowSender.tla"), os.path.join(orch.SPEC, "FlowSenderGen_%s.cfg" % cfgname),
                 extra=["-dump", "dot,actionlabels", dot])
    if not os.path.exists(dot):
        raise orch.Infra("TLC did not dump the FlowSender state graph:\n" + r.stdout[-1500:])
    edges = []
    init = None
    for ln in open(dot):
        m = re.match(r'^(-?\d+) -> (-?\d+) \[label="(\w+)"', ln)
        if m:
            edges.append((m.group(1), m.group(2), m.group(3).replace("G_", "")))
            continue
        m = re.match(r'^(-?\d+) \[label=.*style = filled\]', ln)
        if m and init is None:
            init = m.group(1)
    return init, edges


def edge_cover(init, edges):
    """a set of paths from the initial state covering every transition"""
    outs = collections.defaultdict(list)
    for u, v, a in edges:
        outs[u].append((v, a))
    parent = {init: None}
    dq = collections.deque([init])
    while dq:
        u = dq.popleft()
        for v, a in outs[u]:
            if v not in parent:
                parent[v] = (u, a)
                dq.append(v)

    def path_to(u):
        p = []
        while parent[u] is not None:
            u, a = parent[u]
            p.append(a)
        return p[::-1]
    depth = {u: len(path_to(u)) for u in parent}
    uncovered = set((u, v, a) for u, v, a in edges if u in parent)
    paths = []
    while uncovered:
        u, v, a = min(uncovered, key=lambda e: (depth[e[0]], e))
        path = path_to(u) + [a]
        uncovered.discard((u, v, a))
        cur = v
        while True:
            nxt = [(w, b) for (w, b) in outs[cur] if (cur, w, b) in uncovered]
            if not nxt:
                break
            w, b = nxt[0]
            uncovered.discard((cur, w, b))
            path.append(b)
            cur = w
        paths.append(path)
    return paths, len(set(edges))


def run(tier, binary, d, stress=0, seed=1):
    """returns (violations, coverage-dict)"""
    names = ["a", "c", "e"] if tier == "quick" else list(CONFIGS)
    viols = []
    states = trans = 0
    nsched = nsteps = 0
    edges_total = 0
    samples = []
    divergences = []
    for c in names:
        st, out = model_check(c)
        if st is None:
            m = re.search(r"(Invariant|Temporal properties|property) (\w+)? ?(is|were) violated", out)
            viols.append({"formula": "C05_Model_" + (m.group(2) if m and m.group(2) else "violated"), "detail": "FlowSender model " + c,
                          "scenario": {"name": "FlowSender model config " + c}, "trace_file": None, "trace": None, "line": 0, "k": None})
            continue
        states += st[0]
        trans += st[1]
        init, edges = state_graph(c, d)
        paths, ne = edge_cover(init, edges)
        edges_total += ne
        scheds = [[a for a in p if a not in URGENT] for p in paths]
        inp = os.path.join(d, "fs_sched_%s.json" % c)
        json.dump({"consts": CONFIGS[c], "schedules": scheds}, open(inp, "w"))
        trc = os.path.join(d, "fs_trace_%s.ndjson" % c)
        p = subprocess.run([binary, "-test.run", "TestFlowSender", "-test.timeout", "0"],
                           env=dict(os.environ, VERIF_FS_SCHEDULES=inp, VERIF_TRACES=trc, GOTRACEBACK="all"),
                           stdout=subprocess.PIPE, stderr=subprocess.STDOUT, text=True)
        if p.returncode != 0:
            m = re.search(r"^(panic: .*|fatal error: .*)$", p.stdout, re.M)
            viols.append({"formula": "HANG" if m and "deadlock" in m.group(1) else "CRASH", "detail": m.group(1) if m else "replay failed",
                          "scenario": {"name": "FlowSender replay config " + c}, "crash": {"output": p.stdout[-3000:]},
                          "trace_file": None, "trace": None, "line": 0, "k": None})
            continue
        with open(trc, "a") as f:
            f.write('{"ev":"end"}\n')
        nlines = sum(1 for _ in open(trc))
        outf = trc + ".verdict.json"
        r = orch.tlc(os.path.join(orch.SPEC, "FlowSenderTraceMC.tla"), os.path.join(orch.SPEC, "FlowSenderTrace_%s.cfg" % c),
                     env={"VERIF_TRACE": trc, "VERIF_OUT": outf}, props=["-Dtlc2.tool.queue.IStateQueue=StateDeque"])
        nsched += len(scheds)
        nsteps += nlines
        if not samples:
            samples = [scheds[0], scheds[len(scheds) // 2]]
        m = re.search(r"Invariant (\w+) is violated", r.stdout)
        if m or not os.path.exists(outf):
            # strict conformance lost: the implementation no longer follows the modelled algorithm step by step.
            # Not an alarm by itself (DESIGN 5.2); the property verdict comes from the monitor below.
            hw = max([int(x) for x in re.findall(r'"HW", (\d+)', r.stdout)] or [0])
            divergences.append("config %s: recorded execution is not a behaviour of FlowSender.tla (near line %d of %s)" % (c, hw, trc))
        states += orch.tlc_stats(r.stdout)[0]
        outm = trc + ".mon.json"
        r = orch.tlc(os.path.join(orch.SPEC, "FlowSenderMonMC.tla"), os.path.join(orch.SPEC, "FlowSenderMon_%s.cfg" % c),
                     env={"VERIF_TRACE": trc, "VERIF_OUT": outm})
        if not os.path.exists(outm):
            raise orch.Infra("TLC did not finish the FlowSender monitor on %s:\n%s" % (trc, r.stdout[-1500:]))
        states += orch.tlc_stats(r.stdout)[0]
        for sidx, name, line, detail in json.load(open(outm))["violations"]:
            viols.append({"formula": name, "detail": "", "scenario": {"name": "FlowSender replay config %s schedule %d" % (c, sidx), "schedule": scheds[sidx] if 0 <= sidx < len(scheds) else None,
                          "consts": CONFIGS[c]}, "trace_file": None, "trace": None, "line": line, "k": None})
    nstress = 0
    if stress:
        # free-running: the real sender against a credit-granting goroutine with real parallelism; every round's
        # final observation is judged by the monitor (credit conserved, chunks add up)
        trc = os.path.join(d, "fs_stress.ndjson")
        # several stress processes side by side (each has three busy goroutines)
        nproc = 4
        procs = []
        for k in range(nproc):
            procs.append(subprocess.Popen([binary, "-test.run", "TestFlowSenderStress", "-test.timeout", "0"],
                                          env=dict(os.environ, VERIF_FS_STRESS=str(stress), VERIF_SEED=str(seed), VERIF_TRACES=trc + ".%d" % k,
                                                   VERIF_FS_BASE=str(k * 1000000), GOTRACEBACK="all"),
                                          stdout=subprocess.PIPE, stderr=subprocess.STDOUT, text=True))
        failed = None
        with open(trc, "w") as ftrc:
            for k, pr in enumerate(procs):
                try:
                    out, _ = pr.communicate(timeout=900)
                except subprocess.TimeoutExpired:
                    pr.kill()
                    out, _ = pr.communicate()
                    out += "\nSTUCK (outer time-out)"
                if pr.returncode != 0 and failed is None:
                    failed = out
                if os.path.exists(trc + ".%d" % k):
                    ftrc.write(open(trc + ".%d" % k).read())

        class P:
            pass
        p = P()
        p.returncode, p.stdout = (1, failed) if failed is not None else (0, "")
        if p.returncode != 0:
            m = re.search(r"^(panic: .*|fatal error: .*)$", p.stdout, re.M)
            viols.append({"formula": "HANG" if (m and "deadlock" in m.group(1)) or "STUCK" in p.stdout else "CRASH", "detail": (m.group(1) if m else "sender stress failed: " + p.stdout[-200:]),
                          "scenario": {"name": "FlowSender stress"}, "crash": {"output": p.stdout[-3000:]}, "trace_file": None, "trace": None, "line": 0, "k": None})
        if os.path.exists(trc) and os.path.getsize(trc) > 0:
            with open(trc, "a") as f:
                f.write('{"ev":"end"}\n')
            outm = trc + ".mon.json"
            r = orch.tlc(os.path.join(orch.SPEC, "FlowSenderMonMC.tla"), os.path.join(orch.SPEC, "FlowSenderMon_stress.cfg"),
                         env={"VERIF_TRACE": trc, "VERIF_OUT": outm})
            if not os.path.exists(outm):
                raise orch.Infra("TLC did not finish the FlowSender stress monitor:\n" + r.stdout[-1500:])
            nstress = sum(1 for ln in open(trc) if '"reset"' in ln)
            states += orch.tlc_stats(r.stdout)[0]
            for sidx, name, line, detail in json.load(open(outm))["violations"]:
                viols.append({"formula": name, "detail": "", "scenario": {"name": "FlowSender stress round %d" % sidx}, "trace_file": None, "trace": None, "line": line, "k": None})
    cov = {"flowsender_stress_rounds": nstress, "flowsender_model_states": states, "flowsender_schedules_replayed": nsched, "flowsender_steps_validated": nsteps,
           "flowsender_transitions_covered": edges_total, "flowsender_samples": samples, "divergences": divergences}
    return viols, cov, states, trans


def apalache():
    """inductive invariant of the counter abstraction FlowAbs.tla for symbolic W, CH (Apalache)"""
    import shutil
    import tempfile
    d = tempfile.mkdtemp(prefix="apalache-")
    res = {}
    try:
        for name, args in (("base", ["--init=Init", "--inv=IndInv", "--length=0"]),
                           ("step", ["--init=IndInit", "--inv=IndInv", "--length=1"]),
                           ("never_rejected", ["--init=IndInit", "--inv=NeverRejected", "--length=0"]),
                           ("restored", ["--init=IndInit", "--inv=Restored", "--length=0"])):
            r = orch.sh(["timeout", "300", "apalache-mc", "check", "--cinit=CInit", "--out-dir=" + d] + args + [os.path.join(orch.SPEC, "FlowAbs.tla")], cwd=d)
            ok = "The outcome is: NoError" in r.stdout
            res[name] = "proved" if ok else "FAILED"
            if not ok:
                res["failed"] = True
                res[name + "_out"] = r.stdout[-600:]
    finally:
        shutil.rmtree(d, ignore_errors=True)
    return res
