"""strict conformance of the real library to the detailed model on replayed model schedules:
the recording of each replayed schedule is reduced to its synchronisation points (driver steps and
quiescent points with the projected observation state, computed by spec/TunnelMonProj.tla) and TLC
searches for a behaviour of spec/Tunnel.tla that explains it (spec/TunnelTrace.tla)."""
import concurrent.futures as cf
import json
import os
import re

from . import orch


def split_traces(trace_files):
    """yield (scenario name, [lines]) for every trace in the concatenated files"""
    for tf in trace_files:
        cur, name = [], None
        try:
            f = open(tf)
        except OSError:
            continue
        for ln in f:
            if ln.startswith('{"ev":"reset"'):
                if name is not None:
                    yield name, cur
                cur, name = [], None
                continue
            if ln.startswith('{"ev":"end"'):
                continue
            if name is None and ln.startswith('{"ev":"scenario"'):
                name = json.loads(ln).get("name")
            cur.append(ln)
        if name is not None:
            yield name, cur


def conf_one(name, lines, sched, gencfg, d):
    """returns dict(name, verdict: accepted|rejected|skipped|error, maxl, n, detail)"""
    base = os.path.join(d, re.sub(r"[^A-Za-z0-9_.-]", "_", name))
    single = base + ".ndjson"
    with open(single, "w") as f:
        f.write('{"ev":"reset","i":0,"idx":0,"scn":0,"k":-1}\n')
        f.writelines(lines)
        f.write('{"ev":"end","i":0}\n')
    outp = base + ".proj.json"
    r = orch.tlc(os.path.join(orch.SPEC, "TunnelMonProj.tla"), os.path.join(orch.SPEC, "TunnelMonProj.cfg"),
                 env={"VERIF_TRACE": single, "VERIF_OUT": outp}, workers=1, heap="1g")
    if not os.path.exists(outp):
        return {"name": name, "verdict": "error", "detail": "projection failed: " + r.stdout[-400:]}
    projs = {p["l"]: p["p"] for p in json.load(open(outp))["projs"]}
    # line numbers in the single-trace file: reset line is 1, lines[i] is i + 2
    conf = []
    k = None
    skipped = False
    nsteps = len(sched)
    for i, ln in enumerate(lines):
        e = json.loads(ln)
        if e["ev"] == "step":
            k = e.get("k")
            if k is not None and 2 <= k < 2 + nsteps:
                conf.append({"ev": "drv", "label": sched[k - 2]})
            elif k is not None and k >= 2 + nsteps:
                break
        elif e["ev"] == "skip":
            skipped = True
            break
        elif e["ev"] == "q" and k is not None and k >= 1:
            if k >= 2 + nsteps:
                break
            conf.append({"ev": "q", "blocked": e["blocked"], "h": e["h"], "ctab": e["ctab"], "stab": e["stab"], "nsrv": e["nsrv"],
                         "qc2s": e["qc2s"], "qs2c": e["qs2c"], "chdone": e["chdone"], "proj": projs.get(i + 2)})
    if skipped:
        # the prefix up to the step the code could not execute is still checked: if it is explained by the model, the
        # model allowed a driver step the code refuses right after it
        while conf and conf[-1]["ev"] == "drv":
            conf.pop()
    ctrace = base + ".conf.ndjson"
    with open(ctrace, "w") as f:
        for c in conf:
            f.write(json.dumps(c) + "\n")
    r = orch.tlc(os.path.join(orch.SPEC, "TunnelTrace.tla"), os.path.join(orch.SPEC, gencfg.replace("Gen_", "TunnelTrace_") + ".cfg"),
                 env={"VERIF_TRACE": ctrace}, workers=1, heap="2g", extra=["-noGenerateSpecTE"], timeout=600)
    st = orch.tlc_stats(r.stdout)[0]
    if "Invariant NotAccepted is violated" in r.stdout:
        if skipped:
            return {"name": name, "verdict": "skipped", "n": len(conf), "states": st,
                    "detail": "the model explains the first %d sync points, then takes a driver step the code refuses" % len(conf)}
        return {"name": name, "verdict": "accepted", "n": len(conf), "states": st}
    m = re.search(r'"MAXL", (\d+), (\d+)', r.stdout)
    if m:
        mx = int(m.group(1))
        return {"name": name, "verdict": "rejected", "maxl": mx, "n": len(conf), "states": st,
                "detail": "no behaviour of the model explains sync point %d of %d: %s" % (mx, len(conf), json.dumps(conf[mx - 1])[:600] if 0 < mx <= len(conf) else "")}
    tail = "\n".join(l for l in r.stdout.splitlines() if not l.startswith(("Parsing file", "Semantic processing", "Linting")))
    return {"name": name, "verdict": "error", "detail": tail[-600:]}


def check(trace_files, scenarios, tag, limit=0, workers=6):
    """scenarios: the model-replay scenarios (meta.sched, meta.gencfg). Returns summary dict."""
    byname = {s["name"]: s for s in scenarios if s.get("meta", {}).get("sched") is not None}
    if not byname:
        return {}
    d = orch.fresh_dir("conf-" + tag)
    jobs = []
    for name, lines in split_traces(trace_files):
        s = byname.get(name)
        if s is not None:
            jobs.append((name, lines, s["meta"]["sched"], s["meta"]["gencfg"], d))
    total = len(jobs)
    if limit and len(jobs) > limit:
        # spread over the configurations
        step = len(jobs) / float(limit)
        jobs = [jobs[int(i * step)] for i in range(limit)]
    res = []
    with cf.ThreadPoolExecutor(max_workers=min(workers, max(1, len(jobs)))) as ex:
        for r in ex.map(lambda j: conf_one(*j), jobs):
            res.append(r)
    out = {"replayed": total, "checked": len(res)}
    for v in ("accepted", "rejected", "skipped", "error"):
        out[v] = sum(1 for r in res if r["verdict"] == v)
    out["sync_points"] = sum(r.get("n", 0) for r in res if r["verdict"] == "accepted")
    out["states"] = sum(r.get("states", 0) for r in res)
    out["rejections"] = [{"name": r["name"], "detail": r.get("detail", "")} for r in res if r["verdict"] in ("rejected", "error", "skipped")][:10]
    return out
