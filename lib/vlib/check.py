"""bin/check <property> [--tier quick|thorough] [--replay dir]

Exit 0: the property held on everything explored (known findings are printed as
KNOWN-FINDING lines). Exit 1: a violation that is not a listed known finding
(line "VIOLATION property=<id> replay=<path>"). Exit 2: infrastructure trouble
(no verdict)."""
import argparse
import hashlib
import json
import os
import shutil
import sys
import time

from . import orch, props


def load_known():
    try:
        return json.load(open(os.path.join(orch.VERIF, "known-findings.json")))
    except OSError:
        return {"findings": [], "fixed": []}


def signature(v):
    return v["formula"] + ("@" + v["detail"] if v.get("detail") else "")


def write_replay(pid, v, kind="violation"):
    h = hashlib.sha1(json.dumps([v.get("formula"), v.get("scenario"), v.get("k")], sort_keys=True).encode()).hexdigest()[:10]
    d = os.path.join(orch.WORK, "violations", "%s-%s" % (pid, h))
    shutil.rmtree(d, ignore_errors=True)
    os.makedirs(d)
    json.dump({"property": pid, "formula": v.get("formula"), "detail": v.get("detail"), "line": v.get("line"),
               "scenario": v.get("scenario"), "kind": kind, "crash": v.get("crash")},
              open(os.path.join(d, "script.json"), "w"), indent=1)
    if v.get("trace_file") and v.get("trace") is not None:
        with open(os.path.join(d, "trace.ndjson"), "w") as f:
            f.writelines(orch.extract_trace(v["trace_file"], v["trace"]))
    with open(os.path.join(d, "README"), "w") as f:
        f.write("property %s formula %s %s\nreplay: bin/check %s --replay %s\n" % (
            pid, v.get("formula"), v.get("detail") or "", pid, d))
        if v.get("crash"):
            f.write("\nprocess output:\n" + v["crash"].get("output", ""))
    return d


def judge(pid, viols, crashes, spec):
    """split into (new violations, known findings hit, notes on other properties)"""
    known = load_known()
    kf = {(k["property"], k["signature"]): k for k in known.get("findings", [])}
    mine, hits, notes = [], {}, {}
    for v in viols:
        owner = v["formula"].split("_")[0]
        if owner != pid and not any(v["formula"].startswith(p) for p in spec.get("also", [])):
            if os.environ.get("VERIF_DEBUG") and v["formula"] not in notes:
                print("DEBUG", v["formula"], v["trace_file"], "trace", v["trace"], "line", v["line"], "k", v.get("k"),
                      (v.get("scenario") or {}).get("name"))
            notes[v["formula"]] = notes.get(v["formula"], 0) + 1
            continue
        k = kf.get((pid, signature(v)))
        if k is not None:
            hits.setdefault(signature(v), [k, 0])[1] += 1
        else:
            mine.append(v)
    for c in crashes:
        v = {"formula": "CRASH", "detail": c.get("banner", ""), "scenario": c.get("scenario"), "crash": c,
             "k": None, "trace_file": None, "trace": None}
        if c.get("banner", "").startswith("WARNING: DATA RACE"):
            v["formula"] = "RACE"
            v["detail"] = "go-race-detector"
            if spec.get("race") or pid in ("C02",):
                mine.append(v)
            else:
                notes["RACE " + c.get("name", "")] = 1
            continue
        hang = c.get("timeout") or c.get("stalled") or c.get("banner", "") == props.HANG
        if hang:
            # the library stopped making progress with goroutines stuck (every goroutine of the
            # process blocked, or the run had to be killed): a hang of the real code
            v["formula"] = "HANG"
            v["detail"] = "stalled-goroutines-blocked" if c.get("stalled") else "all-goroutines-blocked" if not c.get("timeout") else "no-progress-timeout"
            if spec.get("hang") and not c.get("timeout"):
                mine.append(v)
            else:
                notes["HANG " + c.get("name", "")] = 1
            continue
        if pid in spec.get("crash_props", props.CRASH_DEFAULT):
            k = kf.get((pid, "CRASH@" + c.get("banner", "")))
            if k is not None:
                hits.setdefault("CRASH@" + c.get("banner", ""), [k, 0])[1] += 1
            else:
                mine.append(v)
        else:
            if os.environ.get("VERIF_DEBUG"):
                print("DEBUG CRASH", c.get("name"), c.get("banner"))
            notes["CRASH " + c.get("banner", "")] = notes.get("CRASH " + c.get("banner", ""), 0) + 1
    return mine, hits, notes


def samples_from(trace_files, n=2, maxlines=25):
    out = []
    for tf in trace_files[:n]:
        try:
            lines = []
            for ln in open(tf):
                if ln.startswith('{"ev":"reset"') and lines:
                    break
                e = json.loads(ln)
                if e.get("ev") in ("scenario", "step", "wire.send", "op.ret", "ctl", "tun"):
                    e.pop("i", None)
                    lines.append(e)
                if len(lines) >= maxlines:
                    break
            out.append(lines)
        except (OSError, ValueError):
            pass
    return out


def main(argv=None):
    ap = argparse.ArgumentParser()
    ap.add_argument("prop")
    ap.add_argument("--tier", default=os.environ.get("VERIF_TIER", "quick"))
    ap.add_argument("--replay")
    a = ap.parse_args(argv)
    pid = a.prop
    tier = a.tier if a.tier in ("quick", "thorough") else "quick"
    seed = int(os.environ.get("VERIF_SEED", "1") or 1)
    t0 = time.time()
    spec = props.PROPS.get(pid)
    if spec is None:
        print("unknown property", pid)
        return 2
    os.makedirs(orch.WORK, exist_ok=True)
    try:
        res = props.run(pid, spec, tier, seed, a.replay)
    except orch.Infra as e:
        print("INFRASTRUCTURE: %s" % e)
        return 2
    mine, hits, notes = judge(pid, res["violations"], res["crashes"], spec)
    for sig, (k, n) in sorted(hits.items()):
        print("KNOWN-FINDING: property=%s %s (%s; %d occurrences in this run)" % (pid, k["what"], sig, n))
    for nme, n in sorted(notes.items()):
        print("NOTE other-property=%s occurrences=%d" % (nme, n))
    rc = 0
    seen = set()
    for v in mine:
        key = signature(v)
        if key in seen:
            continue
        seen.add(key)
        d = write_replay(pid, v)
        print("VIOLATION property=%s replay=%s formula=%s" % (pid, d, key))
        rc = 1
    cov = res["coverage"]
    cov.setdefault("samples", samples_from(res.get("trace_files", [])) or [{"note": "no trace recorded"}])
    cov["known_findings_hit"] = {s: n for s, (k, n) in hits.items()}
    cov["other_property_notes"] = notes
    cov["crashes"] = len(res["crashes"])
    ev = {"property_id": pid, "tier": tier, "seed": seed, "level": spec["level"], "coverage": cov,
          "assumptions": spec.get("assumptions", props.ASSUMPTIONS), "wall_s": round(time.time() - t0, 2),
          "violations": len(seen)}
    os.makedirs(orch.EVIDENCE, exist_ok=True)
    json.dump(ev, open(os.path.join(orch.EVIDENCE, pid + ".json"), "w"), indent=1)
    print("%s %s: %d traces (%d distinct), %d model states, %d violations, %.1fs" % (
        pid, tier, cov.get("traces_validated_against_impl", 0), cov.get("distinct_nontrivial", 0),
        cov.get("states", 0), len(seen), time.time() - t0))
    return rc


def guarded_main(argv=None):
    """any failure of the machinery itself is infrastructure trouble (exit 2), never a verdict"""
    try:
        return main(argv)
    except SystemExit:
        raise
    except BaseException as e:   # noqa
        import traceback
        print("INFRASTRUCTURE: internal error of the checker: %r" % (e,))
        traceback.print_exc(limit=6)
        return 2


if __name__ == "__main__":
    sys.exit(guarded_main())
