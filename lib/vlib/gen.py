"""Scenario generators: workloads (scripted applications), policies and faults.

A scenario is executed by the Go harness (harness/drv) against the real library.
Everything random is derived from the seed given by the caller (VERIF_SEED).
"""
import copy
import random

W = 65536
CH = 16384


def varint_len(n):
    k = 1
    while n >= 128:
        n >>= 7
        k += 1
    return k


def wire_size(n):
    """bytes on the tunnel for a BytesValue payload of n bytes"""
    return 0 if n == 0 else 1 + varint_len(n) + n


def payload_for_wire(w):
    """largest payload length whose wire size is <= w"""
    if w <= 0:
        return 0
    n = w
    while n > 0 and wire_size(n) > w:
        n -= 1
    return n


# payload lengths whose wire sizes sit on the chunk / window boundaries
BOUNDARY_WIRE = [0, 3, 40, CH - 1, CH, CH + 1, 2 * CH, W - 1, W, W + 1, W + CH, 2 * W + 1]
BOUNDARY = sorted(set(payload_for_wire(w) for w in BOUNDARY_WIRE))
SMALL = [0, 1, 17, 300]
BIG = [1 << 20, (4 << 20) + 7]

MD_POOL = {
    "none": None,
    "empty": {"_": []},
    "h1": {"k1": ["v1"]},
    "h2": {"k1": ["v2"], "k2": ["a", "b"]},
    "multi": {"km": ["x", "y", "z"], "k1": ["w"]},
    "bin": {"kb-bin": ["0xfffe00ff62696e"]},
    "long": {"klong": ["L" * 3000]},
    "t1": {"t1": ["tv1"]},
    "t2": {"t1": ["tv2"], "t2": ["p", "q"]},
    # a request that carries its own (well-formed) grpc-timeout header next to ordinary keys
    "tmo": {"grpc-timeout": ["50S"], "k1": ["with-deadline"], "k3": ["c"]},
}

PREFIX = [{"do": "open"}, {"do": "drain"}]


def op(name, **kw):
    d = {"op": name}
    d.update(kw)
    return d


def rpc_script(n, shape, csends=(), ssends=(), status=(0, "", 0), hdrs=(), trls=(), half=True,
               md=None, opts=None, timeout=0, split=False, resp=5, crecv=None, srecv=None,
               sendhdr=False, method=None):
    """Scripts for one RPC. csends/ssends are payload lengths.

    split: sending and receiving run on different actors of each end (needed when
    one direction can block on flow control while the other must keep reading).
    """
    new = op("invoke" if shape == "unary_invoke" else "new", shape=("unary" if shape == "unary_invoke" else shape))
    if md is not None:
        new["md"] = md
    if opts:
        new["opts"] = list(opts)
    if timeout:
        new["timeout"] = timeout
    if method is not None:
        new["method"] = method
    code, msg, det = status
    ret = op("ret", code=code, msg=msg, det=det)
    hpre = [op("sethdr", md=MD_POOL[h] if isinstance(h, str) else h) for h in hdrs]
    if sendhdr:
        hpre.append(op("sendhdr"))
    tpre = [op("settrl", md=MD_POOL[t] if isinstance(t, str) else t) for t in trls]
    if shape == "unary_invoke":
        new["n"] = csends[0] if csends else 0
        ret["n"] = resp
        return {"rpc": n, "c": {"m": [new]}, "s": {"m": [op("recv")] + hpre + tpre + [ret]}}
    if shape == "unary":
        # unary method driven through NewStream on the caller side
        ret["n"] = resp
        c = [new] + [op("send", n=x) for x in csends[:1]] + ([op("half")] if half else []) + [op("recv"), op("recv")]
        return {"rpc": n, "c": {"m": c}, "s": {"m": [op("recv")] + hpre + tpre + [ret]}}
    csend = [op("send", n=x) for x in csends] + ([op("half")] if half else [])
    ssend = [op("send", n=x) for x in ssends]
    nsr = srecv if srecv is not None else (len(csends) + 1 if shape in ("cstream", "bidi") else 1)
    ncr = crecv if crecv is not None else len(ssends) + 1
    srecvs = [op("recv") for _ in range(nsr)]
    crecvs = [op("recv") for _ in range(ncr)]
    if split:
        return {"rpc": n,
                "c": {"m": [new] + csend, "a": crecvs},
                "s": {"m": hpre + ssend + tpre + [ret], "a": srecvs}}
    return {"rpc": n,
            "c": {"m": [new] + csend + crecvs},
            "s": {"m": srecvs + hpre + ssend + tpre + [ret]}}


def scenario(name, cfg, rpcs, policy, steps=None, meta=None):
    return {"name": name, "cfg": cfg, "steps": steps if steps is not None else copy.deepcopy(PREFIX),
            "rpcs": rpcs, "policy": policy, "meta": meta or {}}


def cfgs(dirs=("fwd", "rev"), fcs=("fc", "clinofc", "srvnofc")):
    out = []
    for d in dirs:
        for f in fcs:
            c = {"dir": d}
            if f == "clinofc":
                c["cliNoFC"] = True
            if f == "srvnofc":
                c["srvNoFC"] = True
            if f == "nofc":
                c["cliNoFC"] = True
                c["srvNoFC"] = True
            out.append((d + "-" + f, c))
    return out


SHAPES = ["unary_invoke", "cstream", "sstream", "bidi"]


def sizes_for(shape, rng, pool, kmax=3):
    """(csends, ssends) legal for the shape"""
    def pick(k):
        return [rng.choice(pool) for _ in range(k)]
    if shape in ("unary_invoke", "unary"):
        return pick(1), []
    if shape == "cstream":
        return pick(rng.randint(0, kmax)), pick(1)
    if shape == "sstream":
        return pick(1), pick(rng.randint(0, kmax))
    return pick(rng.randint(0, kmax)), pick(rng.randint(0, kmax))


def random_workload(rng, nrpc, pool, split=None, statuses=((0, "", 0),), with_md=False):
    rpcs = []
    for i in range(1, nrpc + 1):
        shape = rng.choice(SHAPES)
        cs, ss = sizes_for(shape, rng, pool)
        sp = (rng.random() < 0.5) if split is None else split
        if shape == "unary_invoke":
            sp = False
        kw = {}
        if with_md:
            kw["md"] = MD_POOL[rng.choice(["h1", "h2", "multi", "long", "empty"])]
            kw["hdrs"] = [rng.choice(["h1", "h2", "multi", "long"]) for _ in range(rng.randint(0, 2))]
            kw["trls"] = [rng.choice(["t1", "t2", "multi"]) for _ in range(rng.randint(0, 2))]
            kw["opts"] = rng.choice([[], ["hdr", "trl"], ["trl"], ["hdr"]])
        st = rng.choice(list(statuses))
        resp = rng.choice(pool)
        rpcs.append(rpc_script(i, shape, cs, ss, status=st, split=sp, resp=resp, **kw))
    return rpcs


# ---------------------------------------------------------------------------
# families


def fam_data(seed, n, big=False):
    """random concurrent workloads, sizes on the chunk/window boundaries, random
    interleaving of application ops and frame delivery; no faults"""
    rng = random.Random(seed)
    out = []
    cl = cfgs()
    for i in range(n):
        cname, cfg = cl[i % len(cl)]
        pool = BOUNDARY + SMALL + (BIG if big and i % 5 == 0 else [])
        nrpc = rng.randint(1, 3)
        pol = {"kind": rng.choice(["random", "random", "lazy", "eager"]), "seed": rng.randrange(1 << 30), "max": 4000}
        out.append(scenario("data-%s-%d" % (cname, i), cfg, random_workload(rng, nrpc, pool, with_md=(i % 3 == 0)), pol,
                            meta={"family": "data", "done": list(range(1, nrpc + 1))}))
    return out


FAULTS = {
    "close": {"do": "close"},
    "ctxcancel": {"do": "ctxcancel"},
    "carfail": {"do": "carfail"},
    "stop": {"do": "stop"},
    "srvgone": {"do": "srvgone"},
    "gstop+stop": {"do": "gstop"},
}


def canonical_workloads():
    """small deterministic workloads covering the four shapes and the phases
    before headers / mid-message / blocked on window / half-closed / awaiting
    trailers"""
    big = payload_for_wire(W + CH + 5)   # does not fit the window: sender blocks until the peer reads
    mid = payload_for_wire(CH + 7)
    wl = []
    wl.append(("unary", [rpc_script(1, "unary_invoke", [40], resp=9)]))
    wl.append(("cstream", [rpc_script(1, "cstream", [mid, 3], [5], hdrs=["h1"], trls=["t1"])]))
    wl.append(("sstream", [rpc_script(1, "sstream", [7], [mid, 0, 9], hdrs=["h1"], trls=["t1"])]))
    wl.append(("bidi-big-up", [rpc_script(1, "bidi", [big, 5], [3], split=True)]))
    wl.append(("bidi-big-down", [rpc_script(1, "bidi", [5], [big, 3], split=True)]))
    wl.append(("two", [rpc_script(1, "bidi", [mid], [mid], split=True), rpc_script(2, "unary_invoke", [12], resp=3)]))
    wl.append(("cstream-many", [rpc_script(1, "cstream", [3, 4, 5, 6], [7])]))
    wl.append(("sstream-many", [rpc_script(1, "sstream", [3], [4, 5, 6, 7])]))
    return wl


def fam_life(seed, maxk, causes=("close", "ctxcancel", "carfail", "stop", "srvgone", "gstop+stop"),
             policies=("eager", "lazy", "slowsrv", "slowcli"), dirs=("fwd", "rev"), fcs=("fc", "nofc"), workloads=None):
    """every termination cause at every step k of canonical workloads"""
    out = []
    for wname, rpcs in (workloads or canonical_workloads()):
        for cname, cfg in cfgs(dirs, fcs):
            for pol in policies:
                for cause in causes:
                    if cause in ("stop", "gstop+stop") and cfg["dir"] != "rev":
                        continue
                    p = {"kind": pol, "seed": seed, "max": 600, "allK": True, "maxK": maxk,
                         "faults": [{"at": 0, "step": FAULTS[cause]}]}
                    if cause == "gstop+stop":
                        p["faults"].append({"at": -1, "step": {"do": "stop"}})
                    sc = scenario("life-%s-%s-%s-%s" % (wname, cname, pol, cause), cfg, copy.deepcopy(rpcs), p,
                                  meta={"family": "life", "cause": cause})
                    # RPCs attempted after the tunnel ended must fail at once and leave nothing behind
                    sc["late"] = [rpc_script(7, "bidi", [9], [4]), rpc_script(8, "unary_invoke", [6], resp=2)]
                    out.append(sc)
    return out


def fam_cancel(seed, maxk, policies=("eager", "lazy", "slowsrv", "slowcli"), dirs=("fwd", "rev"), fcs=("fc", "nofc"), deadline=True):
    """cancel / deadline of one RPC at every step k, with a bystander"""
    out = []
    for wname, rpcs in canonical_workloads():
        for cname, cfg in cfgs(dirs, fcs):
            for pol in policies:
                kinds = ["cancel"] + (["deadline"] if deadline else [])
                for kind in kinds:
                    rp = copy.deepcopy(rpcs)
                    # bystander RPC 9
                    rp.append(rpc_script(9, "bidi", [33], [44], hdrs=["h2"], trls=["t2"]))
                    if kind == "cancel":
                        fault = {"do": "cancel", "rpc": 1}
                    else:
                        for o in rp[0]["c"]["m"]:
                            if o["op"] in ("new", "invoke"):
                                o["timeout"] = 5000
                        fault = {"do": "advance", "ms": 5001}
                    p = {"kind": pol, "seed": seed, "max": 600, "allK": True, "maxK": maxk,
                         "faults": [{"at": 0, "step": fault}]}
                    out.append(scenario("cancel-%s-%s-%s-%s" % (wname, cname, pol, kind), cfg, rp, p,
                                        meta={"family": "cancel", "kind": kind}))
    return out


def fam_inflight(seed, dirs=("fwd", "rev"), fcs=("fc", "nofc")):
    """frames still in flight when the RPC ends on the receiving side while its handler (or caller) has not
    returned yet: request data queued in the carrier when the deadline passes on both ends, or when the caller
    cancels / the handler returns early; delivered afterwards, before the application makes its next move.
    Explicit steps (no policy): the interesting order is fixed."""
    out = []
    for cname, cfg in cfgs(dirs, fcs):
        for shape in ("bidi", "cstream"):
            for ending0 in ("deadline", "server-deadline", "cancel", "early-return", "deadline-buffered", "server-deadline-buffered", "cancel-buffered"):
                for nmsg in (1, 3):
                    steps = copy.deepcopy(PREFIX)
                    new = cop(1, "new", shape=shape)
                    # "-buffered": the data has ARRIVED (it waits in the receiver for a handler that is not reading) when the RPC ends
                    # there: discarded, not consumed - no credit is due for it
                    buffered = ending0.endswith("-buffered")
                    ending = ending0.replace("-buffered", "")
                    if ending == "deadline":
                        new["timeout"] = 5000
                    if ending == "server-deadline":
                        # the request carries its own grpc-timeout header: only the handler's context has the deadline
                        new["md"] = {"grpc-timeout": ["5S"], "k1": ["v"]}
                    steps += [new, dl("c2s")]                                   # the handler is invoked and idle
                    steps += [cop(9, "new", shape="bidi"), dl("c2s")]           # a bystander
                    steps += [cop(1, "send", n=40 + k) for k in range(nmsg)]    # queued in the carrier
                    if buffered:
                        steps += [dl("c2s") for _ in range(nmsg)] + [{"do": "drain"}]
                    if ending in ("deadline", "server-deadline"):
                        steps += [{"do": "advance", "ms": 5001}]
                    elif ending == "cancel":
                        steps += [{"do": "cancel", "rpc": 1}, dl("c2s", 0)]
                    else:
                        steps += [sop(1, "ret", code=0), {"do": "drain"}]
                    steps += [dl("c2s") for _ in range(nmsg + 2)]               # data (and cancel) frames arrive now
                    if ending != "early-return":
                        steps += [sop(1, "recv"), sop(1, "ret", code=0)]
                    steps += [{"do": "drain"}, cop(1, "recv", act="a"), cop(9, "send", n=7), dl("c2s"), sop(9, "recv"), sop(9, "send", n=8),
                              sop(9, "ret", code=0), {"do": "drain"}, cop(9, "recv", act="a"), cop(9, "recv", act="a")]
                    rpcs = [{"rpc": 1}, {"rpc": 9}]
                    out.append({"name": "inflight-%s-%s-%s%s-%d" % (cname, shape, ending, "-buffered" if buffered else "", nmsg), "cfg": dict(cfg), "steps": steps, "rpcs": rpcs,
                                "policy": {"kind": "eager", "seed": seed, "max": 0},
                                "meta": {"family": "inflight", "done": []}})
    return out


def fam_misuse(seed, dirs=("fwd", "rev")):
    """applications that misuse a stream (half-close twice, send after half-close, send / half-close after the RPC
    ended, a handler that sets headers after sending): the library must refuse - whatever it returns to the
    application, what it puts on the wire still follows the protocol and nothing reported as sent is lost"""
    out = []
    for cname, cfg in cfgs(dirs, ("fc", "nofc")):
        cfg = dict(cfg, keepSending=True)
        variants = {
            "half2": ([op("new", shape="bidi"), op("send", n=5), op("half"), op("half"), op("recv"), op("recv")],
                      [op("recv"), op("recv"), op("send", n=3), op("ret", code=0)]),
            "send-after-half": ([op("new", shape="bidi"), op("send", n=5), op("half"), op("send", n=6), op("half"), op("recv"), op("recv")],
                                [op("recv"), op("recv"), op("send", n=3), op("ret", code=0)]),
            "cstream-half2": ([op("new", shape="cstream"), op("send", n=5), op("half"), op("half"), op("recv"), op("recv")],
                              [op("recv"), op("recv"), op("send", n=3), op("ret", code=0)]),
            "after-end": ([op("new", shape="bidi"), op("send", n=5), op("recv"), op("recv"), op("send", n=6), op("half"), op("half")],
                          [op("recv"), op("send", n=3), op("ret", code=0)]),
            "hdr-after-send": ([op("new", shape="bidi"), op("send", n=5), op("half"), op("recv"), op("recv"), op("recv")],
                               [op("recv"), op("send", n=3), op("sethdr", md=MD_POOL["h1"]), op("sendhdr", md=MD_POOL["h2"]), op("send", n=4), op("ret", code=0)]),
        }
        # a request message that cannot be encoded: the call fails, and is OVER (nothing of it stays behind in the channel)
        variants["invoke-unencodable"] = ([op("invoke", shape="unary", n=5, opts=["badreq", "hdr", "trl"])], [op("recv"), op("ret", code=0, n=3)])
        variants["send-unencodable"] = ([op("new", shape="bidi"), op("send", n=5, opts=["badreq"]), op("send", n=6), op("half"), op("recv"), op("recv")],
                                        [op("recv"), op("recv"), op("send", n=3), op("ret", code=0)])
        for vname, (c, s) in variants.items():
            for pol in ("eager", "lazy"):
                out.append(scenario("misuse-%s-%s-%s" % (vname, cname, pol), cfg, [{"rpc": 1, "c": {"m": c}, "s": {"m": s}}],
                                    {"kind": pol, "seed": seed, "max": 300}, meta={"family": "misuse"}))
    return out


def fam_nested(seed, dirs=("fwd", "rev")):
    """nested tunnels: the scenario's RPCs run over an inner forward tunnel opened through the outer tunnel (forward
    or reverse) of the scenario; outer and inner tunnel are opened with DIFFERENT metadata, the RPCs carry their own
    (or none): handlers and callers must see the inner tunnel's opening metadata, the outer call's peer / interceptor
    values, the RPC's own request metadata and the inner channel (identity observations as in the metadata family)"""
    rng = random.Random(seed)
    out = []
    for d in dirs:
        for i, mdname in enumerate(["h1", "multi", "none", "tmo", "empty"]):
            for shape in ("unary_invoke", "bidi"):
                cfg = {"dir": d, "nested": True, "tunnelMD": {"authorization": ["Bearer OUTER"], "k1": ["outer"]},
                       "nestedMD": {"authorization": ["Bearer inner-secret"], "k1": ["inner"], "tenant": ["t-%d" % i]}}
                md = MD_POOL[mdname]
                if shape == "unary_invoke":
                    new = op("invoke", shape="unary", n=7, opts=rng.choice([[], ["hdr", "trl"], ["creds"]]))
                    rs = {"rpc": 1, "c": {"m": [new]}, "s": {"m": [op("recv"), op("ret", code=0, n=4)]}}
                else:
                    new = op("new", shape="bidi", opts=rng.choice([[], ["hdr", "trl"]]))
                    rs = {"rpc": 1, "c": {"m": [new, op("send", n=9), op("half")], "a": [op("recv"), op("recv")]},
                          "s": {"m": [op("recv"), op("send", n=5), op("recv"), op("ret", code=0)]}}
                if md is not None:
                    new["md"] = md
                else:
                    new["opts"] = new.get("opts", []) + ["nomd"]
                out.append(scenario("nested-%s-%s-%s" % (d, mdname, shape), cfg, [rs, rpc_script(2, "unary_invoke", [3], resp=2)],
                                    {"kind": rng.choice(["eager", "random", "lazy"]), "seed": rng.randrange(1 << 30), "max": 1500},
                                    meta={"family": "nested", "done": [1, 2]}))
    return out


def fam_unary_failing_sends(seed, dirs=("fwd", "rev")):
    """a unary Invoke with grpc.Header / grpc.Trailer targets whose transport fails (or whose tunnel is closed, or
    which is cancelled) exactly between two of its frames - after the new-stream frame, after the request, after
    the half-close - held there by the carrier gates: Invoke returns the failure, and only once its targets are settled"""
    out = []
    for d in dirs:
        for g in ("car.sent.c2s.new", "car.sent.c2s.msg", "car.sent.c2s.half", "cli.tx.lock"):
            for fault in ("carfail@park", "close@park", "cancel@park"):
                new = op("invoke", shape="unary", n=30, opts=["hdr", "trl"])
                rs = {"rpc": 1, "c": {"m": [new]}, "s": {"m": [op("recv"), op("settrl", md=MD_POOL["t1"]), op("ret", code=0, n=4)]}}
                step = {"carfail@park": {"do": "carfail"}, "close@park": {"do": "close"}, "cancel@park": {"do": "cancel", "rpc": 1}}[fault]
                out.append(scenario("unaryfail-%s-%s-%s" % (g, d, fault), {"dir": d, "gates": [g]}, [rs],
                                    {"kind": "eager", "seed": seed, "max": 400, "faults": [{"at": -2, "step": step}]},
                                    meta={"family": "unaryfail", "done": []}))
        # one single Send fails (the new-stream frame, the request, the half-close; a reply frame of the handler)
        for sdir, kind in (("c2s", "new"), ("c2s", "msg"), ("c2s", "half"), ("s2c", "hdr"), ("s2c", "msg"), ("s2c", "close")):
            for shape in ("unary", "bidi"):
                if shape == "unary":
                    rs = {"rpc": 1, "c": {"m": [op("invoke", shape="unary", n=30, opts=["hdr", "trl"])]},
                          "s": {"m": [op("recv"), op("settrl", md=MD_POOL["t1"]), op("ret", code=0, n=4)]}}
                else:
                    rs = {"rpc": 1, "c": {"m": [op("new", shape="bidi", opts=["hdr", "trl"]), op("send", n=9), op("half")], "a": [op("recv"), op("recv"), op("trailer")]},
                          "s": {"m": [op("recv"), op("send", n=5), op("recv"), op("settrl", md=MD_POOL["t1"]), op("ret", code=0)]}}
                sc = scenario("unaryfail-send-%s-%s-%s-%s" % (sdir, kind, shape, d), {"dir": d}, [rs, rpc_script(2, "unary_invoke", [3], resp=2)],
                              {"kind": "eager", "seed": seed, "max": 400}, meta={"family": "unaryfail", "done": []})
                sc["steps"] = sc["steps"][:2] + [{"do": "sendfail", "dir": sdir, "point": kind}] + sc["steps"][2:]
                out.append(sc)
                sc2 = copy.deepcopy(sc)
                sc2["name"] += "-nohooks"
                sc2["cfg"]["hooks"] = "off"
                out.append(sc2)
    return out


def fam_stalled_close(seed, dirs=("fwd", "rev")):
    """the tunnel is closed (or stopped) while a send is stalled inside the transport (bounded carrier, nobody
    delivering): the library must end the tunnel without breaking the transport's usage contract"""
    out = []
    for d in dirs:
        for cap in (1, 2):
            for ending in (("close",) if d == "fwd" else ("close", "stop")):
                for who in ("c", "s"):
                    steps = copy.deepcopy(PREFIX) + [cop(1, "new", shape="bidi"), dl("c2s"), cop(9, "new", shape="bidi"), dl("c2s")]
                    if who == "c":
                        steps += [cop(1, "send", n=30 + k) for k in range(cap + 2)]      # the last ones stall in the carrier
                    else:
                        steps += [sop(1, "send", n=30 + k) for k in range(cap + 2)]
                    steps += [{"do": ending}, {"do": "drain"}, cop(1, "recv", act="a"), cop(9, "recv", act="a"), sop(1, "recv", act="a"), sop(9, "recv", act="a")]
                    out.append({"name": "stalled-%s-cap%d-%s-%s" % (d, cap, ending, who), "cfg": {"dir": d, "cap": cap}, "steps": steps,
                                "rpcs": [{"rpc": 1}, {"rpc": 9}], "policy": {"kind": "eager", "seed": seed, "max": 0},
                                "meta": {"family": "stalled-close", "done": []}})
    return out


def fam_indep(seed, maxk, dirs=("fwd", "rev"), policies=("eager", "lazy", "random")):
    """bystander RPCs + one disturber of each kind, every relative timing (the
    disturber is started after k steps of the bystanders' schedule)"""
    rng = random.Random(seed)
    out = []
    mid = payload_for_wire(CH + 7)
    disturbers = {
        "error": rpc_script(5, "bidi", [3], [4], status=(9, "boom", 1), trls=["t1"]),
        "unknown-method": rpc_script(5, "bidi", [3], [], method="/verif.Svc/Nope"),
        "unknown-service": rpc_script(5, "unary_invoke", [3], method="/nope.Svc/Unary"),
        "malformed-method": rpc_script(5, "bidi", [3], [], method="nomethod"),
        "empty-method": rpc_script(5, "bidi", [3], [], method="<empty>"),
        "slash-method": rpc_script(5, "unary_invoke", [3], method="/"),
        "unary-error": rpc_script(5, "unary_invoke", [3], status=(7, "denied", 0)),
        "never-reads": {"rpc": 5, "c": {"m": [op("new", shape="bidi")] + [op("send", n=payload_for_wire(CH)) for _ in range(6)]},
                        "s": {"m": [op("ctxwait")]}},
        "bad-md": rpc_script(5, "bidi", [3], [4], md=MD_POOL["bin"]),
        "bad-hdr": rpc_script(5, "bidi", [3], [4], hdrs=["bin"]),
        "bad-trl": rpc_script(5, "bidi", [3], [4], trls=["bin"]),
    }
    # a disturber whose handler is blocked sending to a caller that never reads,
    # cancelled at every step
    blocked = {"rpc": 5, "c": {"m": [op("new", shape="bidi"), op("send", n=3)]},
               "s": {"m": [op("send", n=payload_for_wire(CH)) for _ in range(6)] + [op("ret", code=0)]}}
    for cname, cfg in cfgs(dirs, ("fc",)):
        for pol in ("eager", "slowcli"):
            by = [rpc_script(1, "bidi", [mid, 5], [mid, 6], hdrs=["h1"], trls=["t1"], split=True),
                  rpc_script(2, "unary_invoke", [12], resp=3)]
            p = {"kind": pol, "seed": seed, "max": 800, "allK": True, "maxK": maxk or 10,
                 "faults": [{"at": 0, "step": {"do": "cancel", "rpc": 5}}]}
            out.append(scenario("indep-blocked-cancel-%s-%s" % (cname, pol), cfg, by + [copy.deepcopy(blocked)], p,
                                meta={"family": "indep", "disturber": "blocked-cancel", "done": [1, 2]}))
    for dname, drpc in disturbers.items():
        for cname, cfg in cfgs(dirs, ("fc",)):
            for pol in policies:
                by = [rpc_script(1, "bidi", [mid, 5], [mid, 6], hdrs=["h1"], trls=["t1"], split=True),
                      rpc_script(2, "unary_invoke", [12], resp=3)]
                # the disturber's scripts join the schedule; with the random policy
                # the relative timing varies with the seed
                rp = by + [copy.deepcopy(drpc)]
                p = {"kind": pol, "seed": rng.randrange(1 << 30), "max": 800}
                out.append(scenario("indep-%s-%s-%s" % (dname, cname, pol), cfg, rp, p,
                                    meta={"family": "indep", "disturber": dname, "done": [1, 2]}))
    return out


def fam_shutdown(seed, maxk, dirs=("fwd", "rev"), policies=("eager", "lazy")):
    """graceful shutdown at every step k of in-flight workloads, followed by new RPCs"""
    out = []
    for wname, rpcs in canonical_workloads():
        for cname, cfg in cfgs(dirs, ("fc",)):
            for pol in policies:
                rp = copy.deepcopy(rpcs)
                # RPCs attempted after the shutdown: their scripts are gated on the
                # shutdown by being listed as faults (started right after it)
                late1 = rpc_script(7, "bidi", [9, 0], [4])
                late2 = rpc_script(8, "unary_invoke", [6], resp=2)
                late3 = rpc_script(10, "bidi", [3], [], method="/verif.Svc/Nope")
                late4 = rpc_script(11, "unary_invoke", [3], method="nomethod")
                late5 = rpc_script(12, "unary_invoke", [3], method="/nope.Svc/Unary")
                p = {"kind": pol, "seed": seed, "max": 800, "allK": True, "maxK": maxk,
                     "faults": [{"at": 0, "step": {"do": "shutdown"}}]}
                s = scenario("shutdown-%s-%s-%s" % (wname, cname, pol), cfg, rp, p,
                             meta={"family": "shutdown"})
                s["late"] = [late1, late2, late3, late4, late5]
                out.append(s)
    return out


STATUS_POOL = [(0, "", 0)] + [(c, "m%d" % c, c % 3) for c in range(1, 17)] + [(2, "unicode \u00e9\u4e16", 0), (13, "long " + "x" * 500, 2)]


def fam_meta(seed, n, dirs=("fwd", "rev"), gated=True):
    """status / headers / trailers / request metadata: every order of handler
    calls (SetHeader, SendHeader, Send, SetTrailer, return), metadata and status
    values from the pool, call-option combinations, caller reads of Header and
    Trailer interleaved with frame delivery; plus gated runs holding the
    caller-side finish between its sub-steps"""
    rng = random.Random(seed)
    out = []
    mds = ["h1", "h2", "multi", "long", "empty", "tmo", "none"]
    cl = cfgs(dirs, ("fc", "nofc"))
    for i in range(n):
        cname, cfg = cl[i % len(cl)]
        shape = rng.choice(["unary_invoke", "cstream", "sstream", "bidi", "bidi"])
        st = STATUS_POOL[(i + seed) % len(STATUS_POOL)]
        md = MD_POOL[rng.choice(mds)]
        opts = rng.choice([[], ["hdr"], ["trl"], ["hdr", "trl"], ["hdr", "trl", "peer"], ["hdr", "trl", "creds"], ["creds"]])
        # handler: a random order of header/trailer/send ops before the return
        hops = []
        for _ in range(rng.randint(0, 4)):
            k = rng.choice(["sethdr", "sethdr", "sendhdr", "settrl", "send"])
            if k in ("sethdr", "sendhdr"):
                hops.append(op(k, md=MD_POOL[rng.choice(mds[:5])]))
            elif k == "settrl":
                hops.append(op("settrl", md=MD_POOL[rng.choice(["t1", "t2", "multi", "empty"])]))
            elif shape in ("sstream", "bidi"):
                hops.append(op("send", n=rng.choice([0, 5, 300])))
        nsend = sum(1 for o in hops if o["op"] == "send")
        new = op("invoke" if shape == "unary_invoke" else "new", shape=("unary" if shape == "unary_invoke" else shape), opts=opts)
        if md is not None:
            new["md"] = md
        ret = op("ret", code=st[0], msg=st[1], det=st[2])
        if shape == "unary_invoke":
            new["n"] = 7
            ret["n"] = 4
            hops = [o for o in hops if o["op"] != "send"]
            rs = {"rpc": 1, "c": {"m": [new]}, "s": {"m": [op("recv")] + hops + [ret]}}
        else:
            csend = [op("send", n=9)] if shape in ("cstream", "bidi", "sstream") else []
            if shape == "cstream":
                hops.append(op("send", n=3))
                nsend += 1
            creads = []
            for _ in range(nsend + 1):
                creads.append(op("recv"))
                if rng.random() < 0.4:
                    creads.append(op("header"))
            if rng.random() < 0.5:
                creads.insert(0, op("header"))
            creads.append(op("trailer"))
            nsr = 2 if shape in ("cstream", "bidi") else 1
            rs = {"rpc": 1, "c": {"m": [new] + csend + [op("half")], "a": creads},
                  "s": {"m": [op("recv") for _ in range(nsr)] + hops + [ret]}}
        pol = {"kind": rng.choice(["random", "eager", "lazy"]), "seed": rng.randrange(1 << 30), "max": 400}
        cfg = dict(cfg, tunnelMD={"authorization": ["Bearer tunnel-secret"], "k1": ["tunnel"]})
        if i % 3 == 1:
            cfg["icept"] = True
        out.append(scenario("meta-%s-%d" % (cname, i), cfg, [rs, rpc_script(2, "unary_invoke", [3], resp=2)], pol,
                            meta={"family": "meta", "done": [1, 2]}))
    # the handler returns a status without reading the request (as an interceptor that refuses
    # a call does), while the caller is still sending a request larger than the window
    for cname, cfg in cfgs(dirs, ("fc", "nofc")):
        for shape in ("unary_invoke", "cstream", "bidi"):
            for n in (40, payload_for_wire(W + CH)):
                for st in ((16, "no", 0), (0, "", 0)):
                    new = op("invoke" if shape == "unary_invoke" else "new", shape=("unary" if shape == "unary_invoke" else shape))
                    ret = op("ret", code=st[0], msg=st[1], det=st[2])
                    if shape == "unary_invoke":
                        new["n"] = n
                        ret["n"] = 3
                        rs = {"rpc": 1, "c": {"m": [new]}, "s": {"m": [ret]}}
                    else:
                        rs = {"rpc": 1, "c": {"m": [new, op("send", n=n), op("half"), op("recv"), op("recv")]}, "s": {"m": [ret]}}
                    out.append(scenario("meta-early-return-%s-%s-%d-c%d" % (cname, shape, n, st[0]), cfg, [rs],
                                        {"kind": "lazy", "seed": seed, "max": 300}, meta={"family": "meta", "done": [1]}))
    # call options without any outgoing metadata (per-RPC credentials alone)
    for cname, cfg in cfgs(dirs, ("fc",)):
        for shape in ("unary_invoke", "bidi"):
            for opts in (["creds", "nomd"], ["nomd"], ["creds", "nomd", "hdr", "trl", "peer", "chan"]):
                rs = rpc_script(1, shape, [5], [4] if shape == "bidi" else [], opts=opts, hdrs=["h1"], trls=["t1"])
                c2 = dict(cfg, tunnelMD={"authorization": ["Bearer tunnel-secret"]})
                out.append(scenario("meta-nomd-%s-%s-%s" % (cname, shape, "+".join(opts)), c2, [rs],
                                    {"kind": "eager", "seed": seed, "max": 200}, meta={"family": "meta", "done": [1]}))
    # two per-RPC credentials on one call whose keys collide with each other and with the outgoing metadata
    for cname, cfg in cfgs(dirs, ("fc",)):
        for shape in ("unary_invoke", "bidi"):
            for mdname in ("h1", "multi", "none"):
                rs = rpc_script(1, shape, [5], [4] if shape == "bidi" else [], opts=["creds", "creds2"], hdrs=["h1"], trls=["t1"])
                new = rs["c"]["m"][0]
                if MD_POOL[mdname] is not None:
                    new["md"] = MD_POOL[mdname]
                out.append(scenario("meta-creds-collide-%s-%s-%s" % (cname, shape, mdname), cfg, [rs],
                                    {"kind": "eager", "seed": seed, "max": 200}, meta={"family": "meta", "done": [1]}))
    # binary metadata values that are not valid UTF-8 (legal under "-bin" keys)
    for cname, cfg in cfgs(dirs, ("fc",)):
        for where in ("md", "hdrs", "trls"):
            kw = {where: MD_POOL["bin"] if where == "md" else ["bin"]}
            rs = rpc_script(1, "bidi", [5], [4], **kw)
            out.append(scenario("meta-bin-%s-%s" % (cname, where), cfg, [rs, rpc_script(2, "unary_invoke", [3], resp=2)],
                                {"kind": "eager", "seed": seed, "max": 200}, meta={"family": "meta-bin"}))
    if gated:
        # hold the caller's receive loop between the sub-steps of finishing a
        # stream while the application reads the terminal result and the trailers
        for cname, cfg in cfgs(dirs, ("fc", "nofc")):
            for point in ["cli.finish.cas", "cli.finish.removed", "cli.finish.rcvclosed"]:
                for shape in ["bidi", "sstream"]:
                    c = dict(cfg, gates=[point])
                    steps = copy.deepcopy(PREFIX) + [
                        {"do": "op", "end": "c", "rpc": 1, "op": "new", "shape": shape, "opts": ["hdr", "trl"]},
                        {"do": "op", "end": "c", "rpc": 1, "op": "send", "n": 5},
                        {"do": "op", "end": "c", "rpc": 1, "op": "half"},
                        {"do": "drain"},
                        {"do": "op", "end": "s", "rpc": 1, "op": "recv"},
                        {"do": "op", "end": "s", "rpc": 1, "op": "sethdr", "md": MD_POOL["h1"]},
                        {"do": "op", "end": "s", "rpc": 1, "op": "send", "n": 6},
                        {"do": "op", "end": "s", "rpc": 1, "op": "settrl", "md": MD_POOL["t1"]},
                        {"do": "op", "end": "s", "rpc": 1, "op": "ret", "code": 0},
                        {"do": "op", "end": "c", "rpc": 1, "act": "a", "op": "recv"},
                        {"do": "drain"},              # the close frame is delivered; the receive loop parks at the gate
                        {"do": "op", "end": "c", "rpc": 1, "act": "a", "op": "recv"},   # terminal result + trailers
                        {"do": "op", "end": "c", "rpc": 1, "act": "m", "op": "trailer"},
                        {"do": "release", "point": point, "sid": 1},
                        {"do": "op", "end": "c", "rpc": 1, "act": "m", "op": "trailer"},
                        {"do": "drain"},
                    ]
                    out.append({"name": "meta-gated-%s-%s-%s" % (cname, point, shape), "cfg": c, "steps": steps,
                                "meta": {"family": "meta-gated"}})
    return out


GATES = [
    "cli.alloc", "cli.new.sent", "cli.watch.fired", "cli.credit", "cli.close.teardown", "cli.hdr.accept",
    "cli.frame.dispatch", "srv.frame.dispatch",
    "cli.cancel.finished", "cli.cancel.rcvcancelled", "cli.cancel.emit",
    "cli.finish.cas", "cli.finish.removed", "cli.finish.rcvclosed",
    "srv.reject.emit", "srv.create.checked", "srv.credit", "srv.watch.fired", "srv.watch.cancelled",
    "srv.finish.cancelled", "srv.finish.removed", "srv.finish.halfclosed", "srv.close.emit", "srv.close.mid",
    "car.sent.c2s.new", "car.sent.c2s.msg", "car.sent.c2s.more", "car.sent.c2s.half", "car.sent.c2s.cancel", "car.sent.c2s.wu",
    "car.sent.s2c.hdr", "car.sent.s2c.msg", "car.sent.s2c.more", "car.sent.s2c.close", "car.sent.s2c.wu",
    # before a goroutine takes the transport's send lock (the order in which concurrent emitters reach the wire)
    "cli.tx.lock", "srv.tx.lock",
]


def fam_gates(seed, maxk, gates=None, dirs=("fwd", "rev"), faults=("none", "cancel@park", "close@park", "cancel", "close"), policies=("eager",)):
    """hold the first goroutine that reaches a yield point (inside the library, or
    inside the carrier after a frame is on the wire) while everything else runs as
    far as it can, then release it: every multi-step procedure is observed in its
    intermediate states by the other goroutines"""
    out = []
    wls = canonical_workloads()
    i = 0
    for g in (gates or GATES):
        for wname, rpcs in wls:
            for pol in policies:
                for fault in faults:
                    d = dirs[i % len(dirs)]
                    i += 1
                    cfg = {"dir": d, "gates": [g]}
                    if g == "srv.tx.lock":
                        # per stream: holding the point as a whole would hold the settings frame (stream id -1),
                        # i.e. the opening of the tunnel itself
                        cfg["gates"] = [g + "@1", g + "@2", g + "@9"]
                    p = {"kind": pol, "seed": seed, "max": 600}
                    if fault == "cancel":
                        p.update({"allK": True, "maxK": maxk or 6, "faults": [{"at": 0, "step": {"do": "cancel", "rpc": 1}}]})
                    elif fault == "close":
                        p.update({"allK": True, "maxK": maxk or 6, "faults": [{"at": 0, "step": {"do": "close"}}]})
                    elif fault == "cancel@park":
                        # exactly while the goroutine is held at the gate
                        p.update({"faults": [{"at": -2, "step": {"do": "cancel", "rpc": 1}}]})
                    elif fault == "close@park":
                        p.update({"faults": [{"at": -2, "step": {"do": "close"}}]})
                    elif fault == "carfail@park":
                        p.update({"faults": [{"at": -2, "step": {"do": "carfail"}}]})
                    out.append(scenario("gate-%s-%s-%s-%s-%s" % (g, wname, d, pol, fault), cfg, copy.deepcopy(rpcs), p,
                                        meta={"family": "gates", "gate": g, "done": [r["rpc"] for r in rpcs] if fault == "none" else []}))
    return out


# ---------------------------------------------------------------------------
# raw (hostile / legacy) peers


def raw(kind, sid, **kw):
    f = {"kind": kind, "sid": sid}
    f.update(kw)
    return {"do": "raw", "frame": f}


def dl(d, n=1):
    return {"do": "deliver", "dir": d, "n": n}


def cop(rpc, name, act="m", **kw):
    d = {"do": "op", "end": "c", "rpc": rpc, "act": act, "op": name}
    d.update(kw)
    return d


def sop(rpc, name, act="m", **kw):
    d = {"do": "op", "end": "s", "rpc": rpc, "act": act, "op": name}
    d.update(kw)
    return d


def new_frame(sid, rpc, shape="bidi", method=None, rev=1, win=W, md=None):
    m = {"x-rpc": [str(rpc)]}
    if md:
        m.update(md)
    meth = method if method is not None else {"bidi": "/verif.Svc/Bidi", "unary": "/verif.Svc/Unary",
                                               "cstream": "/verif.Svc/CStream", "sstream": "/verif.Svc/SStream"}[shape]
    return raw("new", sid, method=meth, rev=rev, win=win, md=m)


def data_frames(sid, rpc, side, idx, wire, chunks=None):
    """frames of one message of the given wire size (optionally split at the given lengths)"""
    out = []
    off = 0
    lens = chunks or [wire]
    for i, ln in enumerate(lens):
        out.append(raw("msg" if i == 0 else "more", sid, size=wire, len=ln, rpc=rpc, side=side, idx=idx, off=off))
        off += ln
    return out


C2S_DEVIATIONS = [
    ("dup-new-live", lambda: [new_frame(1, 1)]),
    ("new-sid0", lambda: [new_frame(0, 7)]),
    ("new-negative", lambda: [new_frame(-5, 7)]),
    ("new-skip-ahead", lambda: [new_frame(9, 7, shape="unary")]),
    # the boundary ids: the latest id again (after that RPC completed, or while it is live), -1 as an id,
    # an id that was refused at start used again for a servable RPC
    ("new-reuse-latest", lambda: [new_frame(2, 7, shape="unary")]),
    ("new-minus-one", lambda: [new_frame(-1, 7, shape="unary")]),
    ("new-reuse-rejected", lambda: [new_frame(5, 7, method="/verif.Svc/Nope"), new_frame(5, 8, shape="unary")]),
    ("new-unknown-method", lambda: [new_frame(5, 7, method="/verif.Svc/Nope")]),
    ("new-unknown-service", lambda: [new_frame(5, 7, method="/nope.Svc/Unary")]),
    ("new-empty-method", lambda: [new_frame(5, 7, method="")]),
    ("new-malformed-method", lambda: [new_frame(5, 7, method="nomethod")]),
    ("new-slash-method", lambda: [new_frame(5, 7, method="/")]),
    ("new-bad-revision", lambda: [new_frame(5, 7, rev=7)]),
    # request metadata a conforming client of THIS library never sends: grpc-timeout values of every malformed kind
    ("new-timeout-empty", lambda: [new_frame(5, 7, shape="unary", md={"grpc-timeout": [""]})]),
    ("new-timeout-unit-only", lambda: [new_frame(5, 7, shape="unary", md={"grpc-timeout": ["S"]})]),
    ("new-timeout-no-unit", lambda: [new_frame(5, 7, shape="unary", md={"grpc-timeout": ["15"]})]),
    ("new-timeout-negative", lambda: [new_frame(5, 7, shape="unary", md={"grpc-timeout": ["-1S"]})]),
    ("new-timeout-long", lambda: [new_frame(5, 7, shape="unary", md={"grpc-timeout": ["123456789012345678901234567890H"]})]),
    ("new-timeout-many", lambda: [new_frame(5, 7, shape="unary", md={"grpc-timeout": ["", "x", "5S", ""]})]),
    ("new-empty-md-key", lambda: [new_frame(5, 7, shape="unary", md={"": ["v"], "k": []})]),
    ("new-window-zero", lambda: [new_frame(5, 7, shape="unary", win=0)]),
    ("msg-unknown-sid", lambda: data_frames(99, 0, "c", 0, 8)),
    ("msg-sid0", lambda: data_frames(0, 0, "c", 0, 8)),
    ("msg-negative-sid", lambda: data_frames(-3, 0, "c", 0, 8)),
    ("more-without-envelope", lambda: [raw("more", 1, len=4)]),
    ("envelope-then-envelope", lambda: [raw("msg", 1, size=20, len=5), raw("msg", 1, size=6, len=6)]),
    ("len-gt-size", lambda: [raw("msg", 1, size=4, len=9)]),
    ("more-overshoot", lambda: [raw("msg", 1, size=8, len=4), raw("more", 1, len=8)]),
    ("more-overshoot-then-more", lambda: [raw("msg", 1, size=8, len=4), raw("more", 1, len=8)] + [raw("more", 1, len=100) for _ in range(6)]),
    ("overrun-by-one", lambda: [raw("msg", 1, size=W + 1, len=CH)] + [raw("more", 1, len=CH) for _ in range(3)] + [raw("more", 1, len=1)]),
    ("overrun-big-frame", lambda: [raw("msg", 1, size=3 * W, len=W + 1)]),
    ("overrun-many-windows", lambda: [raw("msg", 1, size=4 * W, len=CH)] + [raw("more", 1, len=CH) for _ in range(9)]),
    ("oversize-chunk", lambda: [raw("msg", 1, size=20000, len=20000)]),
    ("half-twice", lambda: [raw("half", 1), raw("half", 1)]),
    ("half-unknown-sid", lambda: [raw("half", 99)]),
    ("cancel-twice", lambda: [raw("cancel", 1), raw("cancel", 1)]),
    ("cancel-unknown-sid", lambda: [raw("cancel", 99)]),
    ("wu-zero", lambda: [raw("wu", 1, len=0)]),
    ("wu-huge", lambda: [raw("wu", 1, len=2147418110)]),
    ("wu-unknown-sid", lambda: [raw("wu", 99, len=5)]),
    ("junk-live", lambda: [raw("junk", 1)]),
    ("junk-unknown-sid", lambda: [raw("junk", 99)]),
    ("junk-disposed", lambda: [raw("junk", 0)]),
    ("second-message-unary", lambda: data_frames(2, 2, "c", 1, 9)),
    ("second-message-unary-two-envelopes", lambda: [raw("msg", 2, size=20, len=5), raw("msg", 2, size=6, len=6)]),
    ("second-message-unary-len-gt-size", lambda: [raw("msg", 2, size=4, len=9)]),
    ("second-message-unary-overrun-envelope", lambda: [raw("msg", 2, size=8, len=4), raw("more", 2, len=9)]),
    ("data-after-half", lambda: [raw("half", 1)] + data_frames(1, 1, "c", 1, 12) + data_frames(1, 1, "c", 2, 12) + data_frames(1, 1, "c", 3, 12)),
    ("many-after-half", lambda: [raw("half", 1)] + sum((data_frames(1, 1, "c", k, 30) for k in range(1, 12)), [])),
]


def fam_hostile_srv(seed, n=0, dirs=("fwd", "rev"), modes=("neg", "legacy", "off")):
    """raw tunnel client against the real tunnel server: every single-frame (or
    short multi-frame) deviation at every position of a valid conversation with two
    streams (one bidi, one unary bystander); with flow control (a negotiating raw
    client using revision one) and without (a raw client that does not advertise
    negotiation - header absent or not "on" - using revision zero); plus handlers
    blocked sending when the peer cancels or violates the protocol"""
    rng = random.Random(seed)
    out = []
    for d in dirs:
        for mode in modes:
            rev = 1 if mode == "neg" else 0
            conv = [new_frame(1, 1, rev=rev), new_frame(2, 2, shape="unary", rev=rev)] + data_frames(1, 1, "c", 0, 12) \
                + data_frames(2, 2, "c", 0, 9) + [raw("half", 2), raw("half", 1)]
            for dname, mk in C2S_DEVIATIONS:
                if mode != "neg" and (dname.startswith("overrun") or dname.startswith("wu-") or "window" in dname):
                    continue
                positions = range(len(conv) + 1) if mode == "neg" else (0, 3, len(conv))
                for pos in positions:
                    if n and rng.random() > n / 100.0:
                        continue
                    dev = mk()
                    for f in dev:
                        if f["frame"]["kind"] == "new" and "rev" in f["frame"] and f["frame"]["rev"] == 1:
                            f["frame"]["rev"] = rev
                    frames = conv[:pos] + dev + conv[pos:]
                    steps = copy.deepcopy(PREFIX)
                    for f in frames:
                        steps += [copy.deepcopy(f), dl("c2s")]
                    rpcs = [{"rpc": 1, "s": {"m": [op("recv"), op("recv"), op("send", n=3), op("ret", code=0)]}},
                            {"rpc": 2, "s": {"m": [op("recv"), op("ret", code=0, n=4)]}},
                            {"rpc": 7, "s": {"m": [op("recv"), op("ret", code=0, n=1)]}},
                            {"rpc": 8, "s": {"m": [op("recv"), op("ret", code=0, n=1)]}}]
                    out.append({"name": "hostile-srv-%s-%s-%s-p%d" % (d, mode, dname, pos),
                                "cfg": {"dir": d, "rawCli": mode}, "steps": steps, "rpcs": rpcs,
                                "policy": {"kind": "eager", "seed": seed, "max": 200},
                                "meta": {"family": "hostile-srv", "deviation": dname}})
        # revision zero (no windows): the peer keeps sending while the handler has stopped reading, then the handler
        # returns (or its deadline passes): the serve loop, parked handing over a frame, must be released, the
        # stream closed and the bystander served
        for mode in ("legacy", "off"):
            for ending in ("ret", "ret-err", "deadline"):
                nf = new_frame(1, 1, shape="cstream", rev=0, md={"grpc-timeout": ["5S"]} if ending == "deadline" else None)
                frames = [nf, new_frame(2, 2, shape="unary", rev=0)]
                steps = [{"do": "open"}, {"do": "drain"}]
                for f in frames:
                    steps += [copy.deepcopy(f), dl("c2s")]
                for k in range(5):
                    for f in data_frames(1, 1, "c", k, 30):
                        steps += [copy.deepcopy(f), dl("c2s")]
                steps += [sop(1, "recv")]
                if ending == "deadline":
                    steps += [{"do": "advance", "ms": 5001}, sop(1, "recv"), sop(1, "ret", code=4)]
                else:
                    steps += [sop(1, "ret", code=0 if ending == "ret" else 13, n=3)]
                for f in data_frames(2, 2, "c", 0, 9) + [raw("half", 2)]:
                    steps += [copy.deepcopy(f), dl("c2s")]
                steps += [sop(2, "recv"), sop(2, "ret", code=0, n=4), {"do": "drain"}]
                out.append({"name": "hostile-srv-%s-%s-overfeed-%s" % (d, mode, ending), "cfg": {"dir": d, "rawCli": mode}, "steps": steps,
                            "rpcs": [{"rpc": 1}, {"rpc": 2}], "policy": {"kind": "eager", "seed": seed, "max": 0},
                            "meta": {"family": "hostile-srv", "deviation": "overfeed-" + ending}})
        # an eager peer: it negotiates but starts sending before it has received the settings frame (held at its
        # emission point): whatever the server answers, settings is still the first frame it sends
        for shape in ("unary", "bidi"):
            steps = [{"do": "open"}]
            for f in [new_frame(1, 1, shape=shape)] + data_frames(1, 1, "c", 0, 9) + [raw("half", 1)]:
                steps += [copy.deepcopy(f), dl("c2s")]
            steps += [sop(1, "recv"), sop(1, "ret", code=0, n=4), {"do": "release", "point": "srv.settings.emit", "sid": -1}, {"do": "drain"}]
            out.append({"name": "hostile-srv-%s-eager-before-settings-%s" % (d, shape), "cfg": {"dir": d, "rawCli": "neg", "gates": ["srv.settings.emit"]},
                        "steps": steps, "rpcs": [{"rpc": 1}], "policy": {"kind": "eager", "seed": seed, "max": 0},
                        "meta": {"family": "hostile-srv", "deviation": "eager-before-settings"}})
        # a peer that announces an enormous message and sends only its first bytes (legal so far: the rest could
        # follow as credit is returned): the endpoint must not reserve what was merely announced
        for announced in (1 << 28, (1 << 31) - 1):   # (TLC integers are 32 bit signed: the monitor cannot read larger sizes)
            for shape in ("bidi", "cstream"):
                frames = [new_frame(1, 1, shape=shape), new_frame(2, 2, shape="unary"), raw("msg", 1, size=announced, len=64)]
                steps = copy.deepcopy(PREFIX) + [{"do": "heap"}]
                for f in frames:
                    steps += [copy.deepcopy(f), dl("c2s")]
                steps += [sop(1, "recv"), {"do": "heap"}] + data_frames(2, 2, "c", 0, 9)[:0]
                for f in data_frames(2, 2, "c", 0, 9) + [raw("half", 2)]:
                    steps += [copy.deepcopy(f), dl("c2s")]
                steps += [sop(2, "recv"), sop(2, "ret", code=0, n=4), {"do": "drain"}, {"do": "heap"}]
                out.append({"name": "hostile-srv-%s-announce-huge-%s-%d" % (d, shape, announced >> 20),
                            "cfg": {"dir": d, "rawCli": "neg"}, "steps": steps, "rpcs": [{"rpc": 1}, {"rpc": 2}],
                            "policy": {"kind": "eager", "seed": seed, "max": 0},
                            "meta": {"family": "hostile-srv", "deviation": "announce-huge"}})
        # the same id discipline while the server is shutting down (new RPCs are refused, but a refused id
        # is still a used id: stale / reused / backwards ids end the tunnel, follow-up frames of a refused
        # RPC do not)
        for dname, mk in C2S_DEVIATIONS:
            if not (dname.startswith("new-") or dname in ("dup-new-live", "msg-unknown-sid")) or "window" in dname:
                continue
            conv = [new_frame(1, 1), new_frame(2, 2, shape="unary")] + data_frames(1, 1, "c", 0, 12) \
                + data_frames(2, 2, "c", 0, 9) + [raw("half", 2), raw("half", 1)]
            tail = [new_frame(3, 3, shape="unary")] + data_frames(3, 3, "c", 0, 9) + [raw("half", 3)]
            for sd in (2, len(conv)):
                for pos in (sd, sd + 1, sd + len(tail)):
                    after = tail[:pos - sd] + mk() + tail[pos - sd:]
                    steps = copy.deepcopy(PREFIX)
                    for f in conv[:sd]:
                        steps += [copy.deepcopy(f), dl("c2s")]
                    steps += [{"do": "shutdown"}]
                    for f in conv[sd:] + after:
                        steps += [copy.deepcopy(f), dl("c2s")]
                    rpcs = [{"rpc": 1, "s": {"m": [op("recv"), op("recv"), op("send", n=3), op("ret", code=0)]}},
                            {"rpc": 2, "s": {"m": [op("recv"), op("ret", code=0, n=4)]}},
                            {"rpc": 3, "s": {"m": [op("recv"), op("ret", code=0, n=1)]}},
                            {"rpc": 7, "s": {"m": [op("recv"), op("ret", code=0, n=1)]}},
                            {"rpc": 8, "s": {"m": [op("recv"), op("ret", code=0, n=1)]}}]
                    out.append({"name": "hostile-srv-%s-shutdown%d-%s-p%d" % (d, sd, dname, pos),
                                "cfg": {"dir": d, "rawCli": "neg"}, "steps": steps, "rpcs": rpcs,
                                "policy": {"kind": "eager", "seed": seed, "max": 200},
                                "meta": {"family": "hostile-srv", "deviation": "shutdown-" + dname}})
        # a caller that announces a huge window for ITSELF (new_stream) and overruns the server's 64 KiB
        for dname, mk in C2S_DEVIATIONS:
            if not dname.startswith("overrun"):
                continue
            for pos in (2, 4):
                conv = [new_frame(1, 1, win=1 << 20), new_frame(2, 2, shape="unary")] + data_frames(1, 1, "c", 0, 12) \
                    + data_frames(2, 2, "c", 0, 9) + [raw("half", 2), raw("half", 1)]
                frames = conv[:pos] + mk() + conv[pos:]
                steps = copy.deepcopy(PREFIX)
                for f in frames:
                    steps += [copy.deepcopy(f), dl("c2s")]
                for busy in (False, True):
                    # busy: the handler is not reading when (and after) the overrun happens
                    h1 = [op("ctxwait"), op("ret", code=0)] if busy else [op("recv"), op("recv"), op("send", n=3), op("ret", code=0)]
                    out.append({"name": "hostile-srv-%s-bigwin-%s-p%d-%s" % (d, dname, pos, "busy" if busy else "reading"),
                                "cfg": {"dir": d, "rawCli": "neg"}, "steps": copy.deepcopy(steps),
                                "rpcs": [{"rpc": 1, "s": {"m": h1}}, {"rpc": 2, "s": {"m": [op("recv"), op("ret", code=0, n=4)]}}],
                                "policy": {"kind": "eager", "seed": seed, "max": 100},
                                "meta": {"family": "hostile-srv", "deviation": "bigwin-" + dname}})
        # a handler that is blocked sending (the raw caller grants no credit) when the caller cancels,
        # violates the protocol on that stream, or simply goes on: the tunnel and the bystander must not suffer
        for ending in ("cancel", "junk", "overrun", "half", "none"):
            frames = [new_frame(1, 1), new_frame(2, 2, shape="unary")] + data_frames(1, 1, "c", 0, 12)
            steps = copy.deepcopy(PREFIX)
            for f in frames:
                steps += [copy.deepcopy(f), dl("c2s")]
            steps += [sop(1, "recv")] + [sop(1, "send", n=payload_for_wire(CH)) for _ in range(5)]   # the 5th send blocks
            tail = {"cancel": [raw("cancel", 1)], "junk": [raw("junk", 1)], "half": [raw("half", 1)], "none": [],
                    "overrun": [raw("msg", 1, size=3 * W, len=W + 1)]}[ending]
            for f in tail + data_frames(2, 2, "c", 0, 9) + [raw("half", 2)]:
                steps += [copy.deepcopy(f), dl("c2s")]
            out.append({"name": "hostile-srv-%s-blocked-handler-%s" % (d, ending), "cfg": {"dir": d, "rawCli": "neg"}, "steps": steps,
                        "rpcs": [{"rpc": 1, "s": {"m": [op("send", n=5), op("ret", code=0)]}},
                                 {"rpc": 2, "s": {"m": [op("recv"), op("ret", code=0, n=4)]}}],
                        "policy": {"kind": "eager", "seed": seed, "max": 100},
                        "meta": {"family": "hostile-srv", "deviation": "blocked-handler-" + ending}})
    return out


S2C_DEVIATIONS = [
    ("settings-midstream", lambda: [raw("settings", 1, win=W, revs=[0, 1])]),
    ("settings-again", lambda: [raw("settings", -1, win=W, revs=[0, 1])]),
    ("unknown-sid", lambda: [raw("hdr", 99)]),
    ("data-unknown-sid", lambda: [raw("msg", 99, size=4, len=4)]),
    ("close-unknown-sid", lambda: [raw("close", 99, code=0)]),
    ("sid0", lambda: [raw("hdr", 0)]),
    ("negative-sid", lambda: [raw("msg", -7, size=4, len=4)]),
    ("hdr-twice", lambda: [raw("hdr", 1, md={"x": ["1"]}), raw("hdr", 1, md={"y": ["2"]})]),
    ("close-twice", lambda: [raw("close", 1, code=0), raw("close", 1, code=5, msg="second")]),
    ("more-without-envelope", lambda: [raw("more", 1, len=4)]),
    ("envelope-then-envelope", lambda: [raw("msg", 1, size=20, len=5), raw("msg", 1, size=6, len=6)]),
    ("len-gt-size", lambda: [raw("msg", 1, size=4, len=9)]),
    # a continuation that jumps past the announced size (the first frame was fine)
    ("more-overshoot", lambda: [raw("msg", 1, size=8, len=4), raw("more", 1, len=8)]),
    ("more-overshoot-then-more", lambda: [raw("msg", 1, size=8, len=4), raw("more", 1, len=8)] + [raw("more", 1, len=100) for _ in range(6)]),
    ("overrun-by-one", lambda: [raw("msg", 1, size=W + 1, len=CH)] + [raw("more", 1, len=CH) for _ in range(3)] + [raw("more", 1, len=1)]),
    ("overrun-big-frame", lambda: [raw("msg", 1, size=3 * W, len=W + 1)]),
    ("overrun-many-windows", lambda: [raw("msg", 1, size=4 * W, len=CH)] + [raw("more", 1, len=CH) for _ in range(9)]),
    ("wu-zero", lambda: [raw("wu", 1, len=0)]),
    ("wu-huge", lambda: [raw("wu", 1, len=2147418110)]),
    ("wu-unknown", lambda: [raw("wu", 99, len=3)]),
    ("junk-live", lambda: [raw("junk", 1)]),
    ("junk-unknown", lambda: [raw("junk", 99)]),
    ("two-responses-unary", lambda: data_frames(2, 2, "s", 0, 7) + data_frames(2, 2, "s", 1, 7)),
    ("close-without-response-unary", lambda: [raw("close", 2, code=0)]),
]


NASTY_KEYS = ["grpc-timeout", "grpc-encoding", "grpc-status", "grpc-message", ":path", ":authority", "content-type", "te", "user-agent",
              "K-Upper", "", " ", "k with space", "k\u00e9", "x-bin", "grpctunnel-negotiate", "x-rpc-extra"]
NASTY_VALS = ["", " ", "0", "-1", "1S", "S", "99999999999999999999H", "1e3S", "\u00e9\u00e8", "v" * 70000, "a,b", "\t", "on", "0x00"]


def fam_hostile_mdfuzz(seed, n=40, dirs=("fwd", "rev")):
    """raw tunnel client: new-stream frames whose request metadata is made of reserved, malformed and oversized keys and
    values (several values per key, several such keys) in a conversation with a bystander: nothing may crash or wedge,
    the RPC is served or refused at stream level, the bystander completes"""
    rng = random.Random(seed)
    out = []
    for i in range(n):
        d = dirs[i % len(dirs)]
        md = {}
        for _ in range(rng.randint(1, 4)):
            md[rng.choice(NASTY_KEYS)] = [rng.choice(NASTY_VALS) for _ in range(rng.randint(0, 3))]
        shape = rng.choice(["unary", "bidi", "cstream", "sstream"])
        mode = rng.choice(["neg", "neg", "legacy"])
        rev = 1 if mode == "neg" else 0
        frames = [new_frame(1, 1, shape=shape, rev=rev, md=md), new_frame(2, 2, shape="unary", rev=rev)] + data_frames(1, 1, "c", 0, 12) \
            + [raw("half", 1)] + data_frames(2, 2, "c", 0, 9) + [raw("half", 2)]
        steps = copy.deepcopy(PREFIX)
        for f in frames:
            steps += [copy.deepcopy(f), dl("c2s")]
        h1 = {"unary": [op("recv"), op("ret", code=0, n=4)], "cstream": [op("recv"), op("recv"), op("ret", code=0, n=4)],
              "sstream": [op("recv"), op("send", n=3), op("ret", code=0)], "bidi": [op("recv"), op("recv"), op("send", n=3), op("ret", code=0)]}[shape]
        out.append({"name": "hostile-srv-%s-%s-mdfuzz-%d" % (d, mode, i), "cfg": {"dir": d, "rawCli": mode}, "steps": steps,
                    "rpcs": [{"rpc": 1, "s": {"m": h1}}, {"rpc": 2, "s": {"m": [op("recv"), op("ret", code=0, n=4)]}}],
                    "policy": {"kind": "eager", "seed": seed, "max": 200}, "meta": {"family": "hostile-srv", "deviation": "mdfuzz"}})
    return out


def fam_hostile_cli(seed, n=0, dirs=("fwd", "rev")):
    """raw tunnel server against the real tunnel client: deviations at every
    position of a valid server conversation (settings, then responses for a bidi
    stream and a unary bystander)"""
    rng = random.Random(seed)
    out = []
    conv = [raw("hdr", 1, md={"h": ["1"]})] + data_frames(1, 1, "s", 0, 8) + [raw("hdr", 2)] + data_frames(2, 2, "s", 0, 7) \
        + [raw("close", 2, code=0, md={"t": ["2"]}), raw("close", 1, code=0, md={"t": ["1"]})]
    for d in dirs:
      for swin in (W, 1 << 30):
        for dname, mk in S2C_DEVIATIONS:
            if swin != W and not dname.startswith("overrun"):
                continue
            for pos in range(len(conv) + 1):
                if n and rng.random() > n / 100.0:
                    continue
                frames = conv[:pos] + mk() + conv[pos:]
                steps = [{"do": "open"}, raw("settings", -1, win=swin, revs=[0, 1]), dl("s2c"),
                         cop(1, "new", shape="bidi", opts=["hdr", "trl"]), cop(1, "send", n=10), cop(1, "half"),
                         cop(2, "invoke", shape="unary", n=5), {"do": "drain"}]
                if pos % 2 == 1 and not dname.startswith("overrun"):
                    steps.append(cop(1, "recv", act="a"))   # a reader already blocked when the frames arrive
                for f in frames:
                    steps += [copy.deepcopy(f), dl("s2c")]
                steps += [cop(1, "recv", act="a"), cop(1, "recv", act="a"), cop(1, "trailer"), {"do": "drain"}]
                out.append({"name": "hostile-cli-%s-%s-w%d-p%d" % (d, dname, swin, pos),
                            "cfg": {"dir": d, "rawSrv": "neg"}, "steps": steps,
                            "meta": {"family": "hostile-cli", "deviation": dname}})
      # a peer that announces an enormous response and sends only its first bytes: the caller's end must not reserve
      # what was merely announced (a reader is assembling the message; a bystander goes on)
      for announced in (1 << 28, (1 << 31) - 1):
          for early_reader in (False, True):
              steps = [{"do": "open"}, raw("settings", -1, win=W, revs=[0, 1]), dl("s2c"),
                       cop(1, "new", shape="bidi", opts=["hdr", "trl"]), cop(1, "send", n=10), cop(1, "half"),
                       cop(2, "invoke", shape="unary", n=5), {"do": "drain"}, {"do": "heap"}]
              if early_reader:
                  steps.append(cop(1, "recv", act="a"))
              for f in [raw("hdr", 1), raw("msg", 1, size=announced, len=64)]:
                  steps += [copy.deepcopy(f), dl("s2c")]
              if not early_reader:
                  steps.append(cop(1, "recv", act="a"))
              steps += [{"do": "drain"}, {"do": "heap"}]
              for f in [raw("hdr", 2)] + data_frames(2, 2, "s", 0, 7) + [raw("close", 2, code=0)]:
                  steps += [copy.deepcopy(f), dl("s2c")]
              steps += [{"do": "drain"}, {"do": "heap"}]
              out.append({"name": "hostile-cli-%s-announce-huge-%d-%s" % (d, announced >> 20, "reader-first" if early_reader else "frame-first"),
                          "cfg": {"dir": d, "rawSrv": "neg"}, "steps": steps,
                          "meta": {"family": "hostile-cli", "deviation": "announce-huge"}})
    return out


def fam_shape(seed, n=0, dirs=("fwd", "rev")):
    """call-shape enforcement: (a) applications that send twice on a non-streaming
    side, (b) a raw caller sending 0..3 request messages (split in chunks, before
    and after half-close) to each of the four shapes, (c) a raw server sending
    0..3 responses to each shape"""
    out = []
    # (a) real applications
    for cname, cfg in cfgs(dirs, ("fc", "nofc")):
        for shape in ("unary", "sstream"):
            c = [op("new", shape=shape), op("send", n=5), op("send", n=6), op("send", n=7), op("half"), op("recv"), op("recv")]
            srv = [op("recv"), op("send", n=3), op("ret", code=0)] if shape == "sstream" else [op("recv"), op("ret", code=0, n=4)]
            cfg = dict(cfg, keepSending=True)
            out.append(scenario("shape-app-c2send-%s-%s" % (shape, cname), cfg, [{"rpc": 1, "c": {"m": c}, "s": {"m": srv}}],
                                {"kind": "eager", "seed": seed, "max": 200}, meta={"family": "shape"}))
        for shape in ("cstream",):
            c = [op("new", shape=shape), op("send", n=5), op("half"), op("recv"), op("recv")]
            srv = [op("recv"), op("recv"), op("send", n=3), op("send", n=4), op("send", n=5), op("ret", code=0)]
            cfg = dict(cfg, keepSending=True)
            out.append(scenario("shape-app-s2send-%s-%s" % (shape, cname), cfg, [{"rpc": 1, "c": {"m": c}, "s": {"m": srv}}],
                                {"kind": "eager", "seed": seed, "max": 200}, meta={"family": "shape"}))
    # (b) raw caller
    for d in dirs:
        for shape in ("unary", "cstream", "sstream", "bidi"):
            for k in range(0, 4):
                for split in (False, True):
                    for after_half in (False, True):
                        frames = [new_frame(1, 1, shape=shape)]
                        msgs = []
                        for i in range(k):
                            msgs.append(data_frames(1, 1, "c", i, 12, chunks=[5, 7] if split else None))
                        pre = sum(msgs[:max(0, k - 1)] if after_half else msgs, [])
                        post = sum(msgs[max(0, k - 1):], []) if after_half else []
                        frames += pre + [raw("half", 1)] + post
                        steps = copy.deepcopy(PREFIX)
                        for f in frames:
                            steps += [copy.deepcopy(f), dl("c2s")]
                        srv = [op("recv"), op("recv"), op("recv"), op("recv")] + ([op("send", n=3)] if shape != "unary" else []) + [op("ret", code=0, n=4)]
                        out.append({"name": "shape-rawcli-%s-%s-k%d-%s-%s" % (d, shape, k, "split" if split else "whole", "afterhalf" if after_half else "before"),
                                    "cfg": {"dir": d, "rawCli": "neg"}, "steps": steps,
                                    "rpcs": [{"rpc": 1, "s": {"m": srv}}], "policy": {"kind": "eager", "seed": seed, "max": 100},
                                    "meta": {"family": "shape"}})
    # (b2) raw caller: a malformed second request on single-request methods
    for d in dirs:
        for shape in ("unary", "sstream"):
            for bname, bad in (("two-envelopes", [raw("msg", 1, size=20, len=5), raw("msg", 1, size=6, len=6)]),
                               ("len-gt-size", [raw("msg", 1, size=4, len=9)]),
                               ("overrun-envelope", [raw("msg", 1, size=8, len=4), raw("more", 1, len=9)]),
                               ("continuation-only", [raw("more", 1, len=4)])):
                frames = [new_frame(1, 1, shape=shape)] + data_frames(1, 1, "c", 0, 12) + copy.deepcopy(bad) + [raw("half", 1)]
                steps = copy.deepcopy(PREFIX)
                for f in frames:
                    steps += [copy.deepcopy(f), dl("c2s")]
                srv = [op("recv"), op("recv")] + ([op("send", n=3)] if shape != "unary" else []) + [op("ret", code=0, n=4)]
                out.append({"name": "shape-rawcli-%s-%s-malformed-second-%s" % (d, shape, bname), "cfg": {"dir": d, "rawCli": "neg"},
                            "steps": steps, "rpcs": [{"rpc": 1, "s": {"m": srv}}], "policy": {"kind": "eager", "seed": seed, "max": 100},
                            "meta": {"family": "shape"}})
    # (c) raw server
    for d in dirs:
        for shape in ("unary", "cstream", "sstream", "bidi"):
            for k in range(0, 4):
                for split in (False, True):
                    for code in (0, 5):
                        resp = [raw("hdr", 1)]
                        for i in range(k):
                            resp += data_frames(1, 1, "s", i, 11, chunks=[4, 7] if split else None)
                        resp += [raw("close", 1, code=code, msg="x" if code else "")]
                        steps = [{"do": "open"}, raw("settings", -1, win=W, revs=[0, 1]), dl("s2c")]
                        if shape == "unary":
                            steps += [cop(1, "invoke", shape="unary", n=5)]
                        else:
                            steps += [cop(1, "new", shape=shape), cop(1, "send", n=5), cop(1, "half")]
                        steps += [{"do": "drain"}]
                        for f in resp:
                            steps += [copy.deepcopy(f), dl("s2c")]
                        if shape != "unary":
                            steps += [cop(1, "recv"), cop(1, "recv"), cop(1, "recv"), cop(1, "recv")]
                        steps += [{"do": "drain"}]
                        out.append({"name": "shape-rawsrv-%s-%s-k%d-%s-c%d" % (d, shape, k, "split" if split else "whole", code),
                                    "cfg": {"dir": d, "rawSrv": "neg"}, "steps": steps, "meta": {"family": "shape"}})
    return out


def fam_neg(seed, n=0, dirs=("fwd", "rev")):
    """revision negotiation: every combination of {enabled, disabled, legacy peer}
    on both ends, every settings message a raw server can send, missing settings"""
    out = []
    wl = [rpc_script(1, "bidi", [payload_for_wire(CH + 9), 0], [payload_for_wire(CH + 3)], hdrs=["h1"], trls=["t1"]),
          rpc_script(2, "unary_invoke", [12], resp=3), rpc_script(3, "cstream", [3, 4], [5]), rpc_script(4, "sstream", [3], [4, 5])]
    # real x real
    for cname, cfg in cfgs(dirs, ("fc", "clinofc", "srvnofc", "nofc")):
        for pol in ("eager", "lazy"):
            out.append(scenario("neg-real-%s-%s" % (cname, pol), cfg, copy.deepcopy(wl), {"kind": pol, "seed": seed, "max": 600},
                                meta={"family": "neg", "done": [1, 2, 3, 4]}))
    # another tunnel, whose peer has flow control disabled, went through the same handler first: what it negotiated is its own,
    # this tunnel is flow-controlled (a message larger than the window in each direction, the reader slow)
    for cname, cfg in cfgs(dirs, ("fc",)):
        for pol in ("eager", "slowsrv", "slowcli"):
            c2 = dict(cfg, preTunnel="nofc")
            big = [rpc_script(1, "bidi", [payload_for_wire(2 * W + 9), 0], [payload_for_wire(2 * W + 3)], hdrs=["h1"], trls=["t1"]),
                   rpc_script(2, "unary_invoke", [12], resp=3)]
            out.append(scenario("neg-after-nofc-tunnel-%s-%s" % (cname, pol), c2, big, {"kind": pol, "seed": seed, "max": 900},
                                meta={"family": "neg", "done": [1, 2]}))
    # legacy caller (does not advertise) against the real server, with and without the server's flow control
    for d in dirs:
      for cmode in ("legacy", "off", "ON", "empty"):
          for srvnofc in (False, True):
              frames = [new_frame(1, 1, rev=0, win=0)] + data_frames(1, 1, "c", 0, 12) + [raw("half", 1),
                        new_frame(2, 2, shape="unary", rev=0, win=0)] + data_frames(2, 2, "c", 0, 9) + [raw("half", 2)]
              steps = [{"do": "open"}, {"do": "drain"}]
              for f in frames:
                  steps += [copy.deepcopy(f), dl("c2s")]
              out.append({"name": "neg-legacy-cli-%s-%s-%s" % (d, cmode, "srvnofc" if srvnofc else "srvfc"),
                          "cfg": {"dir": d, "rawCli": cmode, "srvNoFC": srvnofc}, "steps": steps,
                          "rpcs": [{"rpc": 1, "s": {"m": [op("recv"), op("recv"), op("send", n=payload_for_wire(W + 5)), op("ret", code=0)]}},
                                   {"rpc": 2, "s": {"m": [op("recv"), op("ret", code=0, n=4)]}}],
                          "policy": {"kind": "eager", "seed": seed, "max": 200}, "meta": {"family": "neg"}})
    # legacy server (does not advertise) against the real caller
    for d in dirs:
        for clinofc in (False, True):
            resp = [raw("hdr", 1)] + data_frames(1, 1, "s", 0, 11) + [raw("close", 1, code=0)]
            steps = [{"do": "open"}, cop(1, "new", shape="bidi"), cop(1, "send", n=payload_for_wire(W + CH)), cop(1, "half"), {"do": "drain"}]
            for f in resp:
                steps += [copy.deepcopy(f), dl("s2c")]
            steps += [cop(1, "recv"), cop(1, "recv"), {"do": "drain"}]
            out.append({"name": "neg-legacy-srv-%s-%s" % (d, "clinofc" if clinofc else "clifc"),
                        "cfg": {"dir": d, "rawSrv": "legacy", "cliNoFC": clinofc}, "steps": steps, "meta": {"family": "neg"}})
    # every settings message
    revlists = [[], [0], [1], [0, 1], [1, 0], [2], [0, 2], [2, 1], [1, 1], [0, 0, 1], [7, 8]]
    for d in dirs:
        for clinofc in (False, True):
            for revs in revlists:
                for win in (W, 0, 5):
                    for sid in (-1, 0, 1):
                        if (win != W or sid != -1) and revs not in ([0, 1], [], [2]):
                            continue
                        first = raw("settings", sid, win=win, revs=revs)
                        steps = [{"do": "open"}, first, dl("s2c"),
                                 cop(1, "invoke", shape="unary", n=9), {"do": "drain"},
                                 raw("hdr", 1), dl("s2c")] + sum(([f, dl("s2c")] for f in data_frames(1, 1, "s", 0, 8)), []) \
                            + [raw("close", 1, code=0), dl("s2c"), raw("wu", 1, len=65536), dl("s2c"), {"do": "drain"}]
                        out.append({"name": "neg-settings-%s-%s-revs%s-win%d-sid%d" % (d, "clinofc" if clinofc else "clifc", "".join(map(str, revs)) or "none", win, sid),
                                    "cfg": {"dir": d, "rawSrv": "neg", "cliNoFC": clinofc}, "steps": steps, "meta": {"family": "neg"}})
            # wrong first frame, missing settings
            for fname, first in (("hdr", [raw("hdr", 1), dl("s2c")]), ("msg", [raw("msg", -1, size=3, len=3), dl("s2c")]),
                                 ("junk", [raw("junk", -1), dl("s2c")]), ("missing", [{"do": "rawend", "code": 0}]),
                                 ("missing-err", [{"do": "rawend", "code": 14, "msg": "gone"}])):
                steps = [{"do": "open"}] + copy.deepcopy(first) + [cop(1, "invoke", shape="unary", n=9), {"do": "drain"}]
                out.append({"name": "neg-first-%s-%s-%s" % (d, "clinofc" if clinofc else "clifc", fname),
                            "cfg": {"dir": d, "rawSrv": "neg", "cliNoFC": clinofc}, "steps": steps, "meta": {"family": "neg"}})
    return out


def fam_flow(seed, n, dirs=("fwd", "rev"), caps=(0, 0, 1, 2)):
    """flow control at tunnel level: streams of large total volume under arbitrary
    reader pacing (random scheduling of split send/receive actors), readers that
    stall for ever next to streams that must complete, bounded carrier capacity"""
    rng = random.Random(seed)
    out = []
    pool = [0, 1, 300, payload_for_wire(CH - 1), payload_for_wire(CH), payload_for_wire(CH + 1), payload_for_wire(W - 1),
            payload_for_wire(W), payload_for_wire(W + 1), payload_for_wire(2 * W + 1), 200000]
    for i in range(n):
        d = dirs[i % len(dirs)]
        cap = caps[i % len(caps)]
        cfg = {"dir": d}
        if cap:
            cfg["cap"] = cap
        nrpc = rng.randint(1, 3)
        rpcs = []
        done = []
        for r in range(1, nrpc + 1):
            k1, k2 = rng.randint(1, 6), rng.randint(1, 6)
            rpcs.append(rpc_script(r, "bidi", [rng.choice(pool) for _ in range(k1)], [rng.choice(pool) for _ in range(k2)], split=True))
            done.append(r)
        kind = rng.choice(["paced", "paced", "stalled-handler", "stalled-caller"])
        if kind == "stalled-handler":
            # the handler never reads: the caller's sends block once the window is full; everything else completes
            rpcs.append({"rpc": 9, "c": {"m": [op("new", shape="bidi")] + [op("send", n=payload_for_wire(CH)) for _ in range(7)]},
                         "s": {"m": [op("ctxwait")]}})
        elif kind == "stalled-caller":
            rpcs.append({"rpc": 9, "c": {"m": [op("new", shape="bidi"), op("send", n=3)]},
                         "s": {"m": [op("recv")] + [op("send", n=payload_for_wire(CH)) for _ in range(7)] + [op("ret", code=0)]}})
        pol = {"kind": rng.choice(["random", "random", "lazy", "slowsrv", "slowcli"]), "seed": rng.randrange(1 << 30), "max": 6000}
        if kind != "paced" and i % 3 == 0:
            # the RPC whose sender is blocked on the exhausted window is cancelled by its caller (at some point,
            # mostly while it is blocked): the blocked sender is released, nothing else is disturbed
            kind += "-cancel"
            pol["faults"] = [{"at": rng.choice([15, 30, 60, 100, 150]), "step": {"do": "cancel", "rpc": 9}}]
        out.append(scenario("flow-%s-%s-cap%d-%d" % (kind, d, cap, i), cfg, rpcs, pol, meta={"family": "flow", "done": done}))
    return out


# ---------------------------------------------------------------------------
# registry (C12): several reverse tunnels per handler


def rstep(do, **kw):
    d = {"do": do}
    d.update(kw)
    return d


REG_VIAS = ["all", "key:k1", "key:k2", "key:"]
REG_GATES = ["reg.pre.add", "reg.add.global", "reg.add.key", "reg.unreg.global", "reg.unreg.key", "rts.pre.add"]


def fam_registry(seed, n):
    rng = random.Random(seed)
    out = []
    keys = {1: "k1", 2: "k1", 3: "k2", 4: ""}
    # (1) random histories (every Serve opens a tunnel with a fresh number)
    for i in range(n):
        steps = []
        live = set()
        op = 0
        nxt = 0
        for _ in range(rng.randint(8, 28)):
            c = rng.random()
            if c < 0.25 and len(live) < 4:
                nxt += 1
                live.add(nxt)
                steps.append(rstep("serve", t=nxt, key=rng.choice(["k1", "k1", "k2", ""])))
            elif c < 0.40 and live:
                t = rng.choice(sorted(live))
                live.discard(t)
                steps.append(rstep(rng.choice(["stop", "close", "fail", "ctxcancel"]), t=t))
            elif c < 0.75:
                steps.append(rstep("rpc", via=rng.choice(REG_VIAS)))
            elif c < 0.85:
                steps.append(rstep("ready", via=rng.choice(REG_VIAS)))
            elif c < 0.95:
                op += 1
                steps.append(rstep("waitready", via=rng.choice(REG_VIAS), op=op))
            elif op:
                steps.append(rstep("waitcancel", op=rng.randint(1, op)))
        out.append({"name": "registry-random-%d" % i, "steps": steps, "meta": {"family": "registry"}})
    # (2) round robin over stable sets
    for ntun in (1, 2, 3, 4):
        steps = [rstep("serve", t=t, key="k1") for t in range(1, ntun + 1)]
        steps += [rstep("rpc", via="all") for _ in range(2 * ntun + 1)] + [rstep("rpc", via="key:k1") for _ in range(2 * ntun + 1)]
        steps += [rstep("rpcseq", via="all", op=2 * ntun + 1), rstep("rpcseq", via="key:k1", op=ntun + 1)]
        steps += [rstep("stop", t=1)] + [rstep("rpc", via="all") for _ in range(2 * ntun)] + [rstep("rpcseq", via="all", op=ntun + 1)]
        out.append({"name": "registry-roundrobin-%d" % ntun, "steps": steps, "meta": {"family": "registry"}})
    # (4) a caller waits for readiness while the last tunnel is being cleaned up (its unregistration, the close
    # callback, the handler's own redundant removals), then a new tunnel opens: the waiter must wake
    for g in ("reg.unreg.global", "reg.unreg.key", "cb.close"):
        for end in ("fail", "ctxcancel", "stop", "close"):
            for key in ("k1", ""):
                steps = [rstep("serve", t=1, key=key), rstep("rpc", via="all"), rstep(end, t=1)]     # parks during clean-up
                steps += [rstep("waitready", via="all", op=1), rstep("waitready", via="key:" + key, op=2)]
                steps += [rstep("release", point=g, t=1)]
                steps += [rstep("waitready", via="key:" + key, op=3)]
                steps += [rstep("serve", t=2, key=key), rstep("ready", via="all"), rstep("rpc", via="key:" + key), rstep("rpc", via="all")]
                out.append({"name": "registry-wait-cleanup-%s-%s-%s" % (g, end, key or "nokey"), "gates": [g], "steps": steps,
                            "meta": {"family": "registry"}})
    # (5) tunnels that register at the same moment (held together in the AffinityKey callback and let go at once,
    # real parallelism), in particular with a key nobody used before; then every one of them must be reachable
    for i in range(max(8, n // 4)):
        steps = []
        t = 0
        for key in rng.sample(["k1", "k2", ""], 3):
            steps += [rstep("serve", t=t + 1, key=key), rstep("serve", t=t + 2, key=key)]
            t += 2
            steps += [rstep("ready", via="key:" + key)] + [rstep("rpc", via="key:" + key) for _ in range(4)]
        steps += [rstep("rpc", via="all") for _ in range(6)]
        out.append({"name": "registry-together-%d" % i, "rendezvous": 2, "steps": steps, "meta": {"family": "registry"}})
    # (3) every sub-step of opening / unregistering held while the tunnel ends or is used
    for g in REG_GATES:
        for end in ("fail", "ctxcancel", "stop", "close", "none"):
            for other in (True, False):
                steps = []
                if other:
                    steps.append(rstep("serve", t=2, key="k1"))
                hold_open = g in ("reg.pre.add", "reg.add.global", "reg.add.key", "rts.pre.add")
                gt = 0 if g == "rts.pre.add" else 1
                if hold_open:
                    steps.append(rstep("serve", t=1, key="k1"))          # parks during admission
                    steps += [rstep("rpc", via="key:k1"), rstep("ready", via="key:k1")]
                    if end != "none":
                        steps.append(rstep(end, t=1))
                    steps += [rstep("rpc", via="key:k1"), rstep("rpc", via="all")]
                    steps.append(rstep("release", point=g, t=gt))
                else:
                    steps.append(rstep("serve", t=1, key="k1"))
                    steps.append(rstep("rpc", via="key:k1"))
                    steps.append(rstep(end if end != "none" else "stop", t=1))   # parks while unregistering
                    steps += [rstep("rpc", via="key:k1"), rstep("rpc", via="all"), rstep("ready", via="key:k1")]
                    steps.append(rstep("release", point=g, t=gt))
                steps += [rstep("rpc", via="key:k1"), rstep("rpc", via="key:k1"), rstep("rpc", via="all"), rstep("ready", via="key:k1"), rstep("ready", via="all")]
                out.append({"name": "registry-gate-%s-%s-%s" % (g, end, "other" if other else "alone"), "gates": [g], "steps": steps,
                            "meta": {"family": "registry"}})
    # (4) ReverseTunnelServer: Serve after Stop / GracefulStop, Stop after GracefulStop, with 0..2 tunnels
    for first in ("stop", "gstop"):
        for pre in (0, 1):
            steps = [rstep("serve", t=1, key="k1")] if pre else [rstep("serve", t=1, key="k1"), rstep("close", t=1)]
            steps += [rstep("rpc", via="all"), rstep(first, t=1), rstep("rpc", via="all"), rstep("reserve", t=1, **{"as": 5}), rstep("rpc", via="all")]
            if first == "gstop":
                steps += [rstep("stop", t=1), rstep("rpc", via="all")]
            out.append({"name": "registry-rts-%s-%d" % (first, pre), "steps": steps, "meta": {"family": "registry"}})
    # (7) tunnels that negotiate differently on one handler: a serving end without flow control (revision zero) first
    # (still open, or gone again), then ordinary ones, then another one without, with RPCs through all of them
    for gone in (False, True):
        steps = [rstep("serve", t=1, key="k1", nofc=True), rstep("rpc", via="all")]
        if gone:
            steps += [rstep("stop", t=1)]
        steps += [rstep("serve", t=2, key="k1"), rstep("serve", t=3, key="k2"), rstep("rpc", via="all"), rstep("rpc", via="key:k2"),
                  rstep("serve", t=4, key="", nofc=True), rstep("serve", t=5, key="k1")] + [rstep("rpc", via="all") for _ in range(5)] + [rstep("rpcseq", via="all", op=6)]
        out.append({"name": "registry-mixed-revisions-%s" % ("gone" if gone else "open"), "steps": steps, "meta": {"family": "registry"}})
    # (6) a Serve refused during / after shutdown must not keep GracefulStop or Stop from returning:
    # the tunnel ends (from either side) after the refused Serve, then everything must have returned
    for end in ("close", "fail", "ctxcancel"):
        steps = [rstep("serve", t=1, key="k1"), rstep("rpc", via="all"), rstep("gstop", t=1), rstep("reserve", t=1, **{"as": 5}),
                 rstep("reserve", t=1, **{"as": 6}), rstep(end, t=1), rstep("rpc", via="all"), rstep("stop", t=1), rstep("rpc", via="all")]
        out.append({"name": "registry-rts-refused-gstop-%s" % end, "steps": steps, "meta": {"family": "registry"}})
    steps = [rstep("serve", t=1, key="k1"), rstep("stop", t=1), rstep("reserve", t=1, **{"as": 5}), rstep("stop", t=1), rstep("gstop", t=1),
             rstep("rpc", via="all")]
    out.append({"name": "registry-rts-refused-stop", "steps": steps, "meta": {"family": "registry"}})
    return out


def fam_ids(seed, n, dirs=("fwd", "rev")):
    """stream identifiers: many RPCs started in every interleaving of their
    creation steps (a creator held between id allocation and the new-stream send,
    or inside the carrier after it), some failing at start (channel closed, context
    already ended), mixed shapes"""
    rng = random.Random(seed)
    out = []
    for i in range(n):
        d = dirs[i % len(dirs)]
        nrpc = rng.randint(5, 10)
        rpcs = []
        for r in range(1, nrpc + 1):
            shape = rng.choice(SHAPES)
            cs, ss = sizes_for(shape, rng, [0, 3, 40, 300], kmax=2)
            rpcs.append(rpc_script(r, shape, cs, ss, split=False))
        pol = {"kind": "random", "seed": rng.randrange(1 << 30), "max": 3000}
        kind = i % 4
        cfg = {"dir": d}
        meta = {"family": "ids", "done": list(range(1, nrpc + 1))}
        if kind == 1:
            pol.update({"allK": True, "maxK": 4, "faults": [{"at": 0, "step": {"do": "close"}}]})
            meta["done"] = []
        elif kind == 2:
            cfg["gates"] = [rng.choice(["cli.alloc", "cli.new.sent", "car.sent.c2s.new"])]
        elif kind == 3:
            cfg["gates"] = [rng.choice(["cli.alloc", "car.sent.c2s.new"])]
            pol["faults"] = [{"at": -2, "step": {"do": "cancel", "rpc": rng.randint(1, nrpc)}}]
            meta["done"] = []
        out.append(scenario("ids-%s-%d" % (d, i), cfg, rpcs, pol, meta=meta))
    return out


def fam_free(seed, n, dirs=("fwd", "rev")):
    """free-running concurrent programs: many RPCs, every actor on its own goroutine with real
    parallelism, frames delivered at once, random delays at the library's yield points, optionally
    a Close / cancel / carrier failure when the event log reaches a random length"""
    rng = random.Random(seed)
    out = []
    pool = [0, 3, 300, payload_for_wire(CH), payload_for_wire(CH + 1), payload_for_wire(W + 1), 100000]
    for i in range(n):
        d = dirs[i % len(dirs)]
        fc = rng.choice(["fc", "fc", "fc", "nofc"])
        cfg = {"dir": d, "auto": True}
        if fc == "nofc":
            cfg["cliNoFC"] = True
            cfg["srvNoFC"] = True
        nrpc = rng.randint(4, 16)
        rpcs = random_workload(rng, nrpc, pool, split=True, statuses=STATUS_POOL[:6], with_md=True)
        # readers of Header / Trailer after the corresponding completion signals
        for rs in rpcs:
            if "a" in rs["c"]:
                rs["c"]["a"] = [op("header")] + rs["c"]["a"] + [op("trailer")]
        pol = {"kind": "free", "seed": rng.randrange(1 << 30)}
        if i % 2 == 1:
            cfg["hooks"] = "off"    # see harness/drv/session.go installHooks: nothing of the harness between the goroutines
        kind = rng.choice(["none", "none", "close", "cancel", "carfail", "shutdown", "blocked-cancel", "blocked-cancel", "stop", "stop"])
        if kind == "stop" and d != "rev":
            kind = "close"
        if kind == "blocked-cancel" and fc == "fc":
            # handlers blocked in SendMsg on an exhausted window (their callers never read), cancelled while blocked
            nb = rng.randint(1, 3)
            rpcs = rpcs[:max(1, nrpc - nb)]
            for b in range(nb):
                rn = 40 + b
                rpcs.append({"rpc": rn, "c": {"m": [op("new", shape="bidi"), op("send", n=3)]},
                             "s": {"m": [op("recv")] + [op("send", n=payload_for_wire(CH)) for _ in range(7)] + [op("ret", code=0)]}})
            pol["faults"] = [{"at": rng.randint(60, 260), "step": {"do": "cancel", "rpc": 40 + b}} for b in range(nb)]
            out.append({"name": "free-%s-%s-%s-%d" % (d, fc, kind, i), "cfg": cfg, "steps": [{"do": "open"}],
                        "rpcs": rpcs, "policy": pol, "meta": {"family": "free", "done": []}})
            continue
        if kind == "blocked-cancel":
            kind = "cancel"
        done = list(range(1, nrpc + 1))
        if kind != "none":
            step = {"do": kind} if kind != "cancel" else {"do": "cancel", "rpc": rng.randint(1, nrpc)}
            pol["faults"] = [{"at": rng.randint(20, 400), "step": step}]
            done = []
        out.append({"name": "free-%s-%s-%s-%d" % (d, fc, kind, i), "cfg": cfg, "steps": [{"do": "open"}],
                    "rpcs": rpcs, "policy": pol, "meta": {"family": "free", "done": done}})
    return out
