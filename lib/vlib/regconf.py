"""strict conformance of the real reverse-tunnel registry to the design model spec/Registry.tla:
every recorded registry history is reduced to the events emitted at the instrumented linearization
points and to the quiescence snapshots, and TLC searches for a behaviour of the model that explains
it (spec/RegistryTrace.tla)."""
import concurrent.futures as cf
import json
import os
import re

from . import orch
from .modelconf import split_traces

POINTS = ("reg.pre.add", "reg.add.global", "reg.add.key", "reg.unreg.global", "reg.unreg.key")


def reduce(lines):
    tun = {}
    group = {}   # tunnel -> the ReverseTunnelServer (first tunnel number) it belongs to
    evs = []
    for ln in lines:
        e = json.loads(ln)
        ev = e.get("ev")
        if ev == "reg" and e.get("what") == "serve.start":
            tun[e["t"]] = "key:" + (e.get("key") or "")
            group[e["t"]] = group.get(e.get("of"), e.get("of")) if e.get("again") else e["t"]
            if e.get("again"):
                # Serve called again on a server that was stopped (or is stopping): the tunnel it opens is
                # ended by Serve itself
                evs.append({"ev": "mayend", "ts": [e["t"]]})
        elif ev == "step" and e.get("do") in ("stop", "gstop", "close", "fail", "ctxcancel"):
            # whatever the harness does to a tunnel (or to the server that serves it) may end it from here on
            g = group.get(e.get("t"), e.get("t"))
            evs.append({"ev": "mayend", "ts": sorted(t for t in tun if group.get(t) == g or t == e.get("t"))})
        elif ev == "step" and e.get("do") == "teardown":
            evs.append({"ev": "mayend", "ts": sorted(tun)})
        elif ev in ("hook", "park") and e.get("point") in POINTS and e.get("t", 0) > 0:
            evs.append({"ev": "at", "point": e["point"], "t": e["t"]})
        elif ev == "reg" and e.get("what") in ("cb.open", "cb.close") and e.get("t", 0) > 0:
            evs.append({"ev": "at", "point": e["what"], "t": e["t"]})
        elif ev == "hook" and e.get("point") == "reg.pick":
            evs.append({"ev": "pick", "t": e.get("t", 0), "idx": e["a"], "len": e["b"]})
        elif ev == "rq":
            evs.append({"ev": "rq", "enum": e["enum"], "ready": e["ready"]})
    if not tun:
        return None
    mx = max(tun)
    head = {"ev": "cfg", "tunnels": sorted(tun), "keys": ["key:", "key:k1", "key:k2"],
            "keyof": [tun.get(i, "key:") for i in range(1, mx + 1)]}
    return [head] + evs


def conf_one(name, lines, d):
    red = reduce(lines)
    if red is None:
        return {"name": name, "verdict": "trivial"}
    base = os.path.join(d, re.sub(r"[^A-Za-z0-9_.-]", "_", name))
    with open(base + ".conf.ndjson", "w") as f:
        for c in red:
            f.write(json.dumps(c) + "\n")
    r = orch.tlc(os.path.join(orch.SPEC, "RegistryTrace.tla"), os.path.join(orch.SPEC, "RegistryTrace.cfg"),
                 env={"VERIF_TRACE": base + ".conf.ndjson"}, workers=1, heap="2g", extra=["-noGenerateSpecTE"], timeout=600)
    st = orch.tlc_stats(r.stdout)[0]
    if "Invariant NotAccepted is violated" in r.stdout:
        return {"name": name, "verdict": "accepted", "n": len(red) - 1, "states": st}
    m = re.search(r'"MAXL", (\d+), (\d+)', r.stdout)
    if m:
        mx = int(m.group(1))
        return {"name": name, "verdict": "rejected", "maxl": mx, "n": len(red) - 1, "states": st,
                "detail": "no behaviour of Registry.tla explains event %d of %d: %s (after %s)" % (
                    mx, len(red), json.dumps(red[mx - 1])[:300] if 0 < mx <= len(red) else "", json.dumps(red[max(1, mx - 4):mx - 1])[:400])}
    tail = "\n".join(l for l in r.stdout.splitlines() if not l.startswith(("Parsing file", "Semantic processing", "Linting")))
    return {"name": name, "verdict": "error", "detail": tail[-700:]}


def check(trace_files, tag, limit=0, workers=6):
    d = orch.fresh_dir("regconf-" + tag)
    jobs = [(name, lines, d) for name, lines in split_traces(trace_files)]
    total = len(jobs)
    if limit:
        # quick tier: the sample is drawn from the histories with at most five tunnels (six tunnels registering together
        # cost 2-3 M states each; the thorough tier checks every history)
        def small(j):
            try:
                red = reduce(j[1])
                return red is None or len(red[0]["tunnels"]) <= 5
            except Exception:
                return True
        jobs = [j for j in jobs if small(j)] or jobs
    if limit and len(jobs) > limit:
        step = len(jobs) / float(limit)
        jobs = [jobs[int(i * step)] for i in range(limit)]
    res = []
    with cf.ThreadPoolExecutor(max_workers=min(workers, max(1, len(jobs)))) as ex:
        for r in ex.map(lambda j: conf_one(*j), jobs):
            res.append(r)
    out = {"histories": total, "checked": len(res)}
    for v in ("accepted", "rejected", "trivial", "error"):
        out[v] = sum(1 for r in res if r["verdict"] == v)
    out["events"] = sum(r.get("n", 0) for r in res if r["verdict"] == "accepted")
    out["states"] = sum(r.get("states", 0) for r in res)
    out["rejections"] = [{"name": r["name"], "detail": r.get("detail", "")} for r in res if r["verdict"] in ("rejected", "error")][:10]
    return out
